"""C02 — concurrent parses sharing a cache folder all succeed (parser.py)."""
from __future__ import annotations

import ast
import re

from ..engine import AnalysisError, MechanismMissing, PropertySpec, norm
from ..pyutil import call_name, calls, const_str, kwarg, literal, method_name
from ..sqlfacts import create_table_layout, sql_norm, table_of
from ._pcache import PARSER, get

SPEC = PropertySpec(
    "C02",
    "Concurrent parses sharing a cache folder all succeed",
    decided=(
        "the SQL discipline SQLite needs for concurrent writers to wait instead of failing, as a typestate "
        "automaton over the statement sequence on every CFG path: BEGIN/COMMIT pairing, no read-then-write "
        "upgrade inside a deferred transaction (SQLITE_BUSY is returned immediately there, the busy handler is "
        "not consulted), autocommit connections, conflict-free inserts, no lock held across the parse."
    ),
    not_decided=(
        "progress under arbitrary delays (the busy timeout is wall-clock); the file-removal race of two processes "
        "that both see a corrupt file."
    ),
)
SPEC.assumptions += [
    "SQLite locking model: a deferred transaction that has read (SHARED) and then writes while another connection "
    "holds RESERVED fails with SQLITE_BUSY without invoking the busy handler; BEGIN IMMEDIATE waits up to the timeout",
    "python sqlite3: with isolation_level=None no implicit transactions are opened",
]

SITE_PARSE = PARSER + ":parse"
SITE_STRUCT = PARSER + ":_check_database_structure"

IDLE = ("idle",)


def _txn_flow(cfg, events, rep, site, callee_ok):
    """Forward dataflow of the transaction automaton.  State: ('idle',) or
    ('txn', begin_node_id, mode, has_read, first_sql)."""
    IN = {n.id: set() for n in cfg.nodes}
    IN[cfg.entry] = {IDLE}
    work = [cfg.entry]
    reported = set()
    txn_info = {}

    def report(rule, key, msg, node):
        k = (rule, key)
        if k in reported:
            return
        reported.add(k)
        rep.ob(rule, site, key, False, msg + " [at: %s]" % norm(node.ast)[:80] if node.ast is not None else msg)

    def step(nid, st):
        outs = {st}
        for e in events.get(nid, []):
            nxt = set()
            for s in outs:
                if e.kind == "begin":
                    if s != IDLE:
                        report("R02.1", "begin-in-txn:" + s[4], "BEGIN while the transaction opened for `%s` is still open" % s[4], e.node)
                    nxt.add(("txn", nid, e.detail, False, "?"))
                    txn_info.setdefault(nid, {"mode": e.detail, "stmts": [], "upgrade": None, "committed": False})
                elif e.kind in ("read", "write", "dynamic-sql"):
                    if s == IDLE:
                        nxt.add(s)  # autocommit statement
                        continue
                    _t, b, mode, has_read, first = s
                    info = txn_info[b]
                    sql = sql_norm(e.detail)
                    if sql not in info["stmts"]:
                        info["stmts"].append(sql)
                    if first == "?":
                        first = sql
                    if e.kind == "read":
                        has_read = True
                    elif e.kind == "write" and has_read and mode == "deferred":
                        info["upgrade"] = sql
                    nxt.add(("txn", b, mode, has_read, first))
                elif e.kind == "commit":
                    if s == IDLE:
                        report("R02.1", "commit-in-idle:" + norm(e.call), "commit() with no open transaction on some path", e.node)
                        nxt.add(IDLE)
                    else:
                        txn_info[s[1]]["committed"] = True
                        nxt.add(IDLE)
                elif e.kind == "rollback":
                    nxt.add(IDLE)
                elif e.kind == "close":
                    if s != IDLE:
                        report("R02.1", "close-in-txn:" + s[4], "connection closed while the transaction opened for `%s` is open" % s[4], e.node)
                    nxt.add(IDLE)
                elif e.kind == "call":
                    if e.detail == "_parse" and s != IDLE:
                        report("R02.5", "parse-in-txn:" + s[4], "_parse() (seconds of work) runs while a transaction is open: other writers wait past the busy timeout", e.node)
                    if e.detail in callee_ok and s != IDLE:
                        report("R02.1", "call-in-txn:" + e.detail, "%s() begins its own transactions but is called inside one" % e.detail, e.node)
                    nxt.add(s)
                else:
                    nxt.add(s)
            outs = nxt
        return outs

    OUT = {}
    while work:
        x = work.pop()
        outs = set()
        for s in IN[x]:
            outs |= step(x, s)
        if OUT.get(x) == outs:
            continue
        OUT[x] = outs
        for y in cfg.succ[x]:
            node = cfg.nodes[y]
            add = outs
            if node.kind == "handler":
                add = outs | IN[x]  # the raising statement may not have completed
            if y == cfg.raise_exit:
                continue  # connection is dropped with the exception
            if not add <= IN[y]:
                IN[y] |= add
                work.append(y)
    for s in IN[cfg.exit]:
        if s != IDLE:
            report("R02.1", "exit-in-txn:" + s[4], "function returns with the transaction opened for `%s` still open" % s[4], cfg.nodes[cfg.exit])
    return txn_info


def _run(ctx, rep):
    if "c02" in ctx.cache:
        return ctx.cache["c02"]
    pc = get(ctx, "R02.1")
    info_s = _txn_flow(pc.struct_cfg, pc.struct_ev, rep, SITE_STRUCT, set())
    info_p = _txn_flow(pc.parse_cfg, pc.parse_ev, rep, SITE_PARSE, {"_check_database_structure"})
    ctx.cache["c02"] = (pc, info_s, info_p)
    return ctx.cache["c02"]


@SPEC.rule(
    "R02.1",
    "pairing: along every CFG path BEGIN only when idle, commit() only inside a transaction, function exit / "
    "close() / call of a function that opens its own transactions only when idle (exception exits excluded)",
)
def r02_1(ctx, rep):
    pc, info_s, info_p = _run(ctx, rep)
    n = 0
    for site, info in ((SITE_STRUCT, info_s), (SITE_PARSE, info_p)):
        for b, d in sorted(info.items()):
            n += 1
            name = d["stmts"][0] if d["stmts"] else "empty"
            rep.ob("R02.1", site, "txn:" + name, d["committed"], "transaction must be committed on every path (BEGIN … commit)")
    if n < 5:
        raise MechanismMissing("R02.1", "only %d transactions found in parser.py, expected at least 5" % n)


@SPEC.rule(
    "R02.2",
    "no lock upgrade: in a transaction opened by a plain/deferred BEGIN no write statement may follow a read "
    "statement (use BEGIN IMMEDIATE for read-then-write transactions)",
)
def r02_2(ctx, rep):
    pc, info_s, info_p = _run(ctx, rep)
    for site, info in ((SITE_STRUCT, info_s), (SITE_PARSE, info_p)):
        for b, d in sorted(info.items()):
            name = d["stmts"][0] if d["stmts"] else "empty"
            rep.ob("R02.2", site, "txn:" + name, d["upgrade"] is None,
                   "deferred transaction reads and then writes (`%s`): a second connection doing the same gets "
                   "'database is locked' immediately, without waiting" % d["upgrade"], mode=d["mode"])


@SPEC.rule("R02.3", "every sqlite3.connect in parser.py passes isolation_level=None (autocommit; explicit BEGIN/commit only)")
def r02_3(ctx, rep):
    mod = ctx.module(PARSER)
    n = 0
    for c in ast.walk(mod):
        if isinstance(c, ast.Call) and call_name(c) == "sqlite3.connect":
            n += 1
            il = kwarg(c, "isolation_level")
            ok = isinstance(il, ast.Constant) and il.value is None
            # site: enclosing function
            p = c
            while p is not None and not isinstance(p, ast.FunctionDef):
                p = getattr(p, "_parent", None)
            fn = p.name if p is not None else "<module>"
            # distinguish the connects of one function by their order
            rep.ob("R02.3", PARSER + ":" + fn, "connect#%d:%s" % (n, norm(c.args[0]) if c.args else ""), ok,
                   "sqlite3.connect without isolation_level=None opens implicit transactions; explicit BEGIN then fails or pairs wrongly")
    if n < 2:
        raise MechanismMissing("R02.3", "fewer than 2 sqlite3.connect calls found")


@SPEC.rule("R02.4", "every INSERT into a table with a primary key is INSERT OR REPLACE / OR IGNORE (two processes inserting the same key must not conflict)")
def r02_4(ctx, rep):
    pc, info_s, info_p = _run(ctx, rep)
    keyed = set()
    for e in pc.events("struct", "write"):
        if e.detail.upper().startswith("CREATE TABLE"):
            lay = create_table_layout(e.detail)
            if lay and any(r[5] for r in lay[1]):
                keyed.add(lay[0])
    n = 0
    seen = {}
    tables_hit = set()
    for which, site in (("struct", SITE_STRUCT), ("parse", SITE_PARSE)):
        for e in pc.events(which, "write"):
            up = sql_norm(e.detail).upper()
            if up.startswith(("INSERT", "REPLACE")) and table_of(e.detail) in keyed:
                n += 1
                tables_hit.add(table_of(e.detail))
                ok = up.startswith("REPLACE") or up.startswith("INSERT OR REPLACE") or up.startswith("INSERT OR IGNORE")
                # bound key for uniqueness of instance
                bound = norm(e.call.args[1]) if len(e.call.args) > 1 else ""
                key = "execute:%s | %s" % (sql_norm(e.detail), bound.split(",")[0])
                rep.ob("R02.4", site, key, ok, "plain INSERT into a keyed table raises IntegrityError in the loser of a race")
    # anti-vacuity: both keyed tables are written somewhere (how many statements that takes is a matter of spelling: two INSERTs or one in a loop)
    if len(tables_hit) < 2:
        raise MechanismMissing("R02.4", "INSERT statements found for %s only, expected both keyed tables" % sorted(tables_hit))


@SPEC.rule("R02.5", "no call to _parse (seconds of work) while a transaction is open")
def r02_5(ctx, rep):
    pc, info_s, info_p = _run(ctx, rep)
    calls_ = pc.parse_calls("_parse")
    if not calls_:
        raise MechanismMissing("R02.5", "no _parse call in parse()")
    # violations are reported by the flow itself; record the discharged instances
    bad = {o.key for o in rep.obligations if o.rule == "R02.5" and not o.ok}
    if not bad:
        for n in calls_:
            rep.ob("R02.5", SITE_PARSE, "call:" + norm(n.ast)[:60], True, "_parse runs with no transaction open")


@SPEC.rule("R02.6", "waiting instead of failing: no sqlite3.connect passes a busy timeout below SQLite's 5 s default (timeout=0 makes every lock conflict an immediate 'database is locked')")
def r02_6(ctx, rep):
    mod = ctx.module(PARSER)
    n = 0
    for c in ast.walk(mod):
        if isinstance(c, ast.Call) and call_name(c) == "sqlite3.connect":
            n += 1
            t = kwarg(c, "timeout")
            if t is None and len(c.args) >= 2:
                t = c.args[1]
            v = literal(t) if t is not None else None
            ok = t is None or (isinstance(v, (int, float)) and v >= 5)
            rep.ob("R02.6", PARSER + ":connect#%d" % n, "timeout " + (norm(t) if t is not None else "default"), ok,
                   "a busy timeout of %s lets concurrent parse() calls fail with 'database is locked' instead of waiting" % (norm(t) if t is not None else "default"))
    if n < 2:
        raise MechanismMissing("R02.6", "fewer than 2 sqlite3.connect calls found")
    # the same through the pragma (its unit is milliseconds, the connect keyword's is seconds)
    consts = {t.id: st.value.value for st in mod.body if isinstance(st, ast.Assign) and isinstance(st.value, ast.Constant) for t in st.targets if isinstance(t, ast.Name)}
    for c in ast.walk(mod):
        if isinstance(c, ast.Call) and isinstance(c.func, ast.Attribute) and c.func.attr in ("execute", "executescript") and c.args:
            a = c.args[0]
            txt, ok_txt = "", True
            if isinstance(a, ast.Constant) and isinstance(a.value, str):
                txt = a.value
            elif isinstance(a, ast.JoinedStr):
                for v in a.values:
                    if isinstance(v, ast.Constant):
                        txt += str(v.value)
                    elif isinstance(v, ast.FormattedValue) and isinstance(v.value, ast.Name) and v.value.id in consts:
                        txt += str(consts[v.value.id])
                    elif isinstance(v, ast.FormattedValue) and isinstance(v.value, ast.Constant):
                        txt += str(v.value.value)
                    else:
                        txt += "?"
            elif isinstance(a, ast.BinOp) or isinstance(a, ast.Call):
                txt = norm(a)
            m_ = re.search(r"busy_timeout\s*=\s*([^;\s'\")]+)", txt, flags=re.I)
            if m_:
                try:
                    ms = float(m_.group(1))
                except ValueError:
                    ms = None
                rep.ob("R02.6", PARSER + ":pragma", "PRAGMA busy_timeout = %s" % m_.group(1), ms is not None and ms >= 5000,
                       "PRAGMA busy_timeout takes MILLISECONDS: %s shortens the wait for a lock from the 5000 ms the connection was opened with to %s ms, and concurrent "
                       "first-time callers fail with 'database is locked'" % (m_.group(1), m_.group(1)))


@SPEC.rule(
    "R02.7",
    "the handler that deletes the database file guards only the integrity check: no BEGIN and no write statement may "
    "run inside the try whose handler removes the file (a lock conflict there would delete a database another call is using)",
)
def r02_7(ctx, rep):
    pc, info_s, info_p = _run(ctx, rep)
    fn = pc.parse_fn
    n = 0
    for t in ast.walk(fn):
        if isinstance(t, ast.Try) and any(call_name(c) in ("os.remove", "os.unlink") for h in t.handlers for s in h.body for c in calls(s)):
            n += 1
            bad = []
            for s in t.body:
                for c in calls(s):
                    m = method_name(c)
                    if m == "execute" and c.args:
                        sql = const_str(c.args[0]) or ""
                        from ..sqlfacts import classify

                        k, d = classify(sql)
                        if k in ("begin", "write"):
                            bad.append(sql_norm(sql)[:40])
                    elif isinstance(c.func, ast.Name) and c.func.id.startswith("_check"):
                        bad.append(c.func.id + "()")
                    elif m == "commit":
                        bad.append("commit()")
            rep.ob("R02.7", SITE_PARSE, "try guarded by the file-removing handler", not bad,
                   "statements %s run under the handler that deletes the cache file: contention on them (OperationalError is a "
                   "DatabaseError) would remove the database while another parse() is using it" % bad)
    if n < 1:
        raise MechanismMissing("R02.7", "no handler removing the database file found")


@SPEC.rule(
    "R02.8",
    "initialised-flag published last: the per-process set of initialised databases (parse.initialized_dbs) is updated "
    "only after the integrity check, the structure check and the pruning transaction of that database have completed — "
    "another thread that sees the flag skips all of them",
)
def r02_8(ctx, rep):
    R = "R02.8"
    pc, info_s, info_p = _run(ctx, rep)
    cfg = pc.parse_cfg
    pubs = []
    for x in cfg.stmts():
        t = norm(x.ast)
        if ("initialized_dbs.add(" in t) or (isinstance(x.ast, ast.Assign) and "initialized_dbs" in norm(x.ast.targets[0]) and norm(x.ast.value) not in ("set()", "{}")):
            pubs.append(x)
    if not pubs:
        raise MechanismMissing(R, "no statement publishing the database in parse.initialized_dbs found")
    struct = {n.id for n in pc.parse_calls("_check_database_structure")}
    integ = {e.node.id for e in pc.events("parse", "read") if "INTEGRITY_CHECK" in e.detail.upper()}
    prune = {e.node.id for e in pc.events("parse", "write") if e.detail.upper().startswith("DELETE")}
    commits_after_prune = set()
    for p_ in prune:
        for e in pc.events("parse", "commit"):
            if e.node.id in cfg.reachable(p_):
                commits_after_prune.add(e.node.id)
    for x in pubs:
        for what, nodes in (("integrity check", integ), ("structure check", struct), ("pruning transaction committed", commits_after_prune)):
            w = cfg.path(cfg.entry, x.id, avoid=nodes) if nodes else [cfg.nodes[cfg.entry]]
            # commits_after_prune: passing ANY commit reachable from the DELETE is required
            rep.ob(R, SITE_PARSE, "publish `%s` after %s" % (norm(x.ast)[:50], what), w is None,
                   "the database is marked initialised on a path that has not passed the %s: a concurrent parse() in the same "
                   "process skips initialisation and works on a database without tables" % what, path=cfg.describe(w) if w else "")


@SPEC.rule(
    "R02.9",
    "the structure check is complete for every caller: every path through _check_database_structure looks at both tables, and "
    "each table's (re)creation is decided from its own verdict (same rule as R01.10) — a second first-time caller that arrives "
    "between the creator's two commits must not conclude from a correct `models` table that `metadata` exists too",
)
def r02_9(ctx, rep):
    from .c01 import table_verdicts

    table_verdicts(ctx, rep, "R02.9")


@SPEC.rule(
    "R02.10",
    "nothing before the first SQL statement can fail because another caller got there first: every directory creation in parser.py "
    "tolerates an existing directory (`mkdir(..., exist_ok=True)` / `os.makedirs(..., exist_ok=True)`) — an `if not exists(): mkdir()` "
    "is a check-then-act race that raises FileExistsError in the slower of two first-time callers; and the once-per-process memo is "
    "keyed by the database connected to",
)
def r02_10(ctx, rep):
    from .c01 import once_per_process_key
    R = "R02.10"
    mod = ctx.module(PARSER)
    n = 0
    for fn in [x for x in mod.body if isinstance(x, ast.FunctionDef)]:
        for c in calls(fn):
            nm = norm(c.func)
            if nm.endswith(".mkdir") or nm.endswith("makedirs"):
                n += 1
                ok = any(k.arg == "exist_ok" and isinstance(k.value, ast.Constant) and k.value.value is True for k in c.keywords)
                rep.ob(R, PARSER + ":" + fn.name, "directory creation `%s` tolerates an existing directory" % norm(c)[:60], ok,
                       "without exist_ok=True the loser of two simultaneous first-time calls raises FileExistsError whatever test precedes the call")
    if n < 1:
        raise MechanismMissing(R, "no directory creation found in parser.py")
    once_per_process_key(ctx, rep, R)


@SPEC.rule(
    "R02.11",
    "one connection per call: every connection parse() works with comes from a sqlite3.connect made in this very call (not out of a container "
    "that outlives the call), and every path from that connect to a `return` passes its close() — sqlite3 connections belong to the thread that "
    "opened them, so a connection remembered for `the next call` raises ProgrammingError in the next thread, and one that is never closed keeps its "
    "file handle and journal state for the life of the process",
)
def r02_11(ctx, rep):
    from ..cfg import CFG
    R = "R02.11"
    fn = ctx.func(PARSER, "parse", R)
    site = PARSER + ":parse"
    cfg = CFG(fn, R)
    conns = [x for x in cfg.stmts() if isinstance(x.ast, ast.Assign) and any(call_name(c) == "sqlite3.connect" for c in calls(x.ast))]
    if not conns:
        raise MechanismMissing(R, "sqlite3.connect not found in parse()")
    names = set()
    for x in conns:
        for t in x.ast.targets:
            if isinstance(t, ast.Name):
                names.add(t.id)
            else:
                names |= {n.id for n in ast.walk(t) if isinstance(n, ast.Name) and isinstance(n.ctx, ast.Store)}
    stored = [norm(x.ast)[:70] for x in conns if any(not isinstance(t, ast.Name) for t in x.ast.targets) or len(x.ast.targets) > 1]
    fetched = [norm(x.ast)[:70] for x in cfg.stmts() if isinstance(x.ast, ast.Assign) and any(isinstance(t, ast.Name) and t.id in names for t in x.ast.targets)
               and not any(call_name(c) == "sqlite3.connect" for c in calls(x.ast))]
    rep.ob(R, site, "the connection is made by this call and kept by nobody else", not stored and not fetched,
           "%s — the connection object outlives the call (or comes from an earlier one)" % "; ".join((stored + fetched)[:3]))
    closes = {x.id for x in cfg.stmts() if any(isinstance(c.func, ast.Attribute) and c.func.attr == "close" and isinstance(c.func.value, ast.Name) and c.func.value.id in names
                                               for c in calls(x.ast))}
    rets = [x for x in cfg.stmts() if isinstance(x.ast, ast.Return)]
    bad = None
    for cn in conns:
        for r in rets:
            if r.id in cfg.reachable(cn.id):
                bad = bad or cfg.path(cn.id, r.id, avoid=closes | {c2.id for c2 in conns if c2.id != cn.id})
    rep.ob(R, site, "every return after the connect passes close()", bool(closes) and bad is None,
           "parse() can return with the connection still open", path=cfg.describe(bad) if bad else "")


@SPEC.rule(
    "R02.12",
    "the database file is taken away from under other callers only when it is unusable: every call in parser.py that removes or renames a "
    "file (os.remove / os.unlink / Path.unlink / os.replace / os.rename / shutil.move) sits in an exception handler — the one behind the "
    "integrity check; a removal on a normal path (`the layout was outdated, start from a fresh file`) leaves a concurrent parse() that has "
    "already connected on an unlinked file: its entry is lost and its next write fails",
)
def r02_12(ctx, rep):
    R = "R02.12"
    mod = ctx.module(PARSER, R)
    n = 0
    handler_nodes = set()
    for t in ast.walk(mod):
        if isinstance(t, ast.Try):
            for h in t.handlers:
                for s_ in h.body:
                    for x in ast.walk(s_):
                        handler_nodes.add(id(x))
    for fn in [f for f in ast.walk(mod) if isinstance(f, ast.FunctionDef)]:
        for c in calls(fn):
            cn = call_name(c) or ""
            removing = cn in ("os.remove", "os.unlink", "os.replace", "os.rename", "shutil.move", "shutil.rmtree") or (
                isinstance(c.func, ast.Attribute) and c.func.attr in ("unlink", "rename", "replace") and not isinstance(c.func.value, ast.Constant)
                and "path" in norm(c.func.value).lower())
            if not removing:
                continue
            n += 1
            rep.ob(R, PARSER + ":" + fn.name, "`%s` only in an exception handler" % norm(c)[:50], id(c) in handler_nodes,
                   "the file is removed / renamed on a path that is not the handling of an error: another parse() that is connected to it keeps "
                   "working on an unlinked file")
    if n < 1:
        raise MechanismMissing(R, "no file removal found in parser.py (the corrupt-database recovery is gone)")


@SPEC.rule(
    "R02.13",
    "a row another call may have deleted is never taken for granted: every result of cursor.fetchone() in parser.py that is unpacked or "
    "subscripted is known to be a row at that point (`if result:` / `is not None`), and fetchone() is never unpacked directly — a second "
    "look-up of `the row we just saw` in a transaction of its own can come back empty after another process's prune",
)
def r02_13(ctx, rep):
    from ..cfg import CFG, assume_truth, must_facts
    R = "R02.13"
    mod = ctx.module(PARSER, R)
    n = 0
    for fn in [f for f in mod.body if isinstance(f, ast.FunctionDef)]:
        if not any(method_name(c) == "fetchone" for c in calls(fn)):
            continue
        site = PARSER + ":" + fn.name
        cfg = CFG(fn, R)
        rows = set()
        for x in cfg.stmts():
            a = x.ast
            if isinstance(a, ast.Assign) and isinstance(a.value, ast.Call) and method_name(a.value) == "fetchone":
                if isinstance(a.targets[0], ast.Name):
                    rows.add(a.targets[0].id)
                else:
                    n += 1
                    rep.ob(R, site, "`%s` unpacks a row that may not exist" % norm(a)[:60], False,
                           "fetchone() returns None when no row matches: unpacking it directly raises TypeError")
            for sub in ast.walk(a) if not isinstance(a, (ast.FunctionDef, ast.ClassDef)) else []:
                if isinstance(sub, ast.Subscript) and isinstance(sub.value, ast.Call) and method_name(sub.value) == "fetchone":
                    n += 1
                    rep.ob(R, site, "`%s` subscripts a row that may not exist" % norm(sub)[:60], False, "fetchone() returns None when no row matches")

        def transfer(node, facts):
            if node.kind == "assume":
                for r_ in rows:
                    for q, pol in ((r_, True), ("%s is None" % r_, False), ("%s is not None" % r_, True)):
                        t = assume_truth(node, q)
                        if t is not None:
                            facts = facts | {r_} if t == pol else facts - {r_}
            if node.kind == "stmt" and isinstance(node.ast, ast.Assign) and any(isinstance(t, ast.Name) and t.id in rows for t in node.ast.targets):
                facts = facts - {t.id for t in node.ast.targets if isinstance(t, ast.Name)}
            return facts

        IN = must_facts(cfg, transfer)
        for x in cfg.stmts():
            a = x.ast
            uses = []
            if isinstance(a, ast.Assign) and isinstance(a.targets[0], (ast.Tuple, ast.List)) and isinstance(a.value, ast.Name) and a.value.id in rows:
                uses.append(a.value.id)
            if not isinstance(a, (ast.FunctionDef, ast.ClassDef, ast.If, ast.For, ast.While, ast.Try, ast.With)):
                uses += [s_.value.id for s_ in ast.walk(a) if isinstance(s_, ast.Subscript) and isinstance(s_.value, ast.Name) and s_.value.id in rows]
            for r_ in uses:
                n += 1
                rep.ob(R, site, "`%s` reads a row that is known to exist" % norm(a)[:60], r_ in (IN.get(x.id) or frozenset()),
                       "`%s` may be None here (no test of it holds on every path to this statement)" % r_)
    if n < 1:
        raise MechanismMissing(R, "no use of a fetched row found in parser.py")


@SPEC.rule(
    "R02.14",
    "calls share nothing but the database: no function of parser.py keeps state between calls in a module-level container, a caching "
    "decorator or an attribute hung on a function object — other than the set of databases checked in this process (R02.8/R02.10); a "
    "`last text / last digest` memo written by two statements pairs one thread's text with another thread's digest, and the next parse "
    "looks up and stores under the wrong key",
)
def r02_14(ctx, rep):
    from .c25 import module_state_free
    module_state_free(ctx, rep, "R02.14", PARSER, "the parser module (parse() and the cache helpers)")


# -- seeded variants ---------------------------------------------------------
from ._mut import delete_stmt_where, replace_const_str, replace_in_func  # noqa: E402


@SPEC.mutant("delete a commit", PARSER, "R02.1", "")
def _m_commit(mod):
    return mod if delete_stmt_where(mod, "parse", lambda st: any(method_name(c) == "commit" for c in calls(st)), which=1) else None


@SPEC.mutant("reconnect without autocommit", PARSER, "R02.3", "connect#2")
def _m_iso(mod):
    def edit(fn):
        cs = [c for c in ast.walk(fn) if isinstance(c, ast.Call) and call_name(c) == "sqlite3.connect"]
        if len(cs) < 2:
            return False
        cs[1].keywords = []
        return True

    return mod if replace_in_func(mod, "parse", edit) else None


@SPEC.mutant("plain INSERT", PARSER, "R02.4", "INSERT INTO models")
def _m_insert(mod):
    return mod if replace_const_str(mod, "parse", lambda s: s.replace("INSERT OR REPLACE", "INSERT") if "INSERT OR REPLACE" in s else None) else None


@SPEC.mutant("deferred schema transaction", PARSER, "R02.2", "sqlite_master", needs_fixed=True)
def _m_deferred(mod):
    return mod if replace_const_str(mod, "_check_database_structure", lambda s: "BEGIN TRANSACTION;" if "IMMEDIATE" in s else None) else None


@SPEC.mutant("parse inside the insert transaction", PARSER, "R02.5", "parse-in-txn")
def _m_parse_in_txn(mod):
    def edit(fn):
        # move a BEGIN in front of the try that calls _parse
        for n in ast.walk(fn):
            if isinstance(n, ast.If) and isinstance(n.test, ast.Compare) and norm(n.test) == "tree is None":
                n.body.insert(0, ast.parse('cursor.execute("BEGIN TRANSACTION;")').body[0])
                # and drop the later BEGIN of the insert
                for m in ast.walk(n):
                    if isinstance(m, ast.If) and norm(m.test) == "tree is not None":
                        m.body = [s for s in m.body if not (isinstance(s, ast.Expr) and "BEGIN" in norm(s))]
                        m.orelse = [ast.parse("conn.commit()").body[0]]
                return True
        return False

    return mod if replace_in_func(mod, "parse", edit) else None


@SPEC.mutant("busy timeout 0", PARSER, "R02.6", "timeout")
def _m_timeout(mod):
    def edit(fn):
        for c in ast.walk(fn):
            if isinstance(c, ast.Call) and call_name(c) == "sqlite3.connect":
                c.keywords.append(ast.keyword(arg="timeout", value=ast.Constant(value=0)))
                return True
        return False

    return mod if replace_in_func(mod, "parse", edit) else None


@SPEC.mutant("structure check moved under the file-removing handler", PARSER, "R02.7", "")
def _m_struct_in_try(mod):
    def edit(fn):
        for t in ast.walk(fn):
            if isinstance(t, ast.Try) and any(call_name(c) == "os.remove" for h in t.handlers for s_ in h.body for c in calls(s_)):
                t.body.append(ast.parse("_check_database_structure(conn)").body[0])
                return True
        return False

    return mod if replace_in_func(mod, "parse", edit) else None


@SPEC.mutant("initialised flag set before the work", PARSER, "R02.8", "publish")
def _m_pub(mod):
    def edit(fn):
        for n in ast.walk(fn):
            if isinstance(n, ast.Try) and any("integrity_check" in norm(x) for x in n.body):
                # insert publication right before the integrity try
                for p_ in ast.walk(fn):
                    for fld in ("body", "orelse"):
                        b = getattr(p_, fld, None)
                        if isinstance(b, list) and n in b:
                            b.insert(b.index(n), ast.parse("parse.initialized_dbs = {full_db_path}").body[0])
                            return True
        return False

    return mod if replace_in_func(mod, "parse", edit) else None


@SPEC.mutant("connection kept for later calls", PARSER, "R02.11", "kept by nobody else")
def _m_keep_conn(mod):
    def edit(fn):
        for i, st in enumerate(fn.body):
            if isinstance(st, ast.Assign) and "sqlite3.connect" in norm(st.value) and isinstance(st.targets[0], ast.Name):
                fn.body.insert(i + 1, ast.parse("parse.__dict__.setdefault('connections', {})[full_db_path] = conn").body[0])
                fn.body.insert(i, ast.parse("conn = parse.__dict__.get('connections', {}).get(full_db_path)").body[0])
                return True
        return False

    from ._mut import replace_in_func as _r
    return mod if _r(mod, "parse", edit) else None


@SPEC.mutant("database file removed after an outdated layout", PARSER, "R02.12", "only in an exception handler")
def _m_unlink_outdated(mod):
    def edit(fn):
        for i, st in enumerate(fn.body):
            if isinstance(st, ast.If) and any("_check_database_structure" in norm(x) for x in st.body):
                for j, x in enumerate(st.body):
                    if isinstance(x, ast.Expr) and "_check_database_structure" in norm(x):
                        st.body.insert(j + 1, ast.parse("if cache_expiration_days < 0:\n    conn.close()\n    os.remove(full_db_path)").body[0])
                        return True
        return False

    return mod if replace_in_func(mod, "parse", edit) else None


@SPEC.mutant("row fetched a second time and unpacked directly", PARSER, "R02.13", "unpacks a row")
def _m_refetch(mod):
    def edit(fn):
        for b in ast.walk(fn):
            for f_ in ("body", "orelse"):
                lst = getattr(b, f_, None)
                if isinstance(lst, list):
                    for i, st in enumerate(lst):
                        if isinstance(st, ast.Assign) and isinstance(st.targets[0], ast.Tuple) and isinstance(st.value, ast.Name) and len(st.targets[0].elts) == 2:
                            lst.insert(i + 1, ast.parse("(last_hit,) = cursor.fetchone()").body[0])
                            return True
        return False

    return mod if replace_in_func(mod, "parse", edit) else None
