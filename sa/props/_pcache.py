"""Shared fact extraction for the parse cache (parser.py), used by C01 and C02."""
from __future__ import annotations

import ast
from typing import Dict, List, Optional

from ..cfg import CFG, Node
from ..engine import AnalysisError, Context
from ..pyutil import call_name, calls
from ..sqlfacts import Event, sql_events, table_of

PARSER = "src/pymoca/parser.py"


class PCache:
    def __init__(self, ctx: Context, rule: str):
        self.ctx = ctx
        self.parse_fn = ctx.func(PARSER, "parse", rule)
        self.struct_fn = ctx.func(PARSER, "_check_database_structure", rule)
        self.hash_fn_name = None
        self.parse_cfg = CFG(self.parse_fn, rule)
        self.struct_cfg = CFG(self.struct_fn, rule)
        self.parse_ev = sql_events(self.parse_cfg)
        self.struct_ev = sql_events(self.struct_cfg)
        args = self.parse_fn.args
        allp = list(args.posonlyargs) + list(args.args)
        if not allp:
            raise AnalysisError(rule, "parse() has no parameters")
        self.txt_param = allp[0].arg

    def events(self, which="parse", kind=None, table=None) -> List[Event]:
        evs = self.parse_ev if which == "parse" else self.struct_ev
        out = []
        for nid in sorted(evs):
            for e in evs[nid]:
                if kind is not None and e.kind != kind:
                    continue
                if table is not None and table_of(e.detail) != table:
                    continue
                out.append(e)
        return out

    def parse_calls(self, name: str) -> List[Node]:
        """CFG nodes of parse() that call the module-level function ``name``."""
        out = []
        for n in self.parse_cfg.nodes:
            if n.kind not in ("stmt", "test"):
                continue
            if isinstance(n.ast, (ast.FunctionDef, ast.ClassDef)):
                continue
            for c in calls(n.ast):
                if call_name(c) == name:
                    out.append(n)
                    break
        return out


def get(ctx: Context, rule: str) -> PCache:
    if "pcache" not in ctx.cache:
        ctx.cache["pcache"] = PCache(ctx, rule)
    return ctx.cache["pcache"]
