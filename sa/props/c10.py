"""C10 — generated CasADi model classifies every variable exactly once."""
from __future__ import annotations

import ast

from ..cfg import CFG, assume_truth
from ..engine import AnalysisError, MechanismMissing, PropertySpec, norm
from ..pyutil import inlined as _inlined, call_name, calls, const_str, dotted, is_name, walk_local
from ._listener import listener_symmetry

GEN = "src/pymoca/backends/casadi/generator.py"
TREE = "src/pymoca/tree.py"

SPEC = PropertySpec(
    "C10",
    "Generated CasADi model classifies every variable exactly once",
    decided=(
        "the classification is one total, exclusive decision list over the symbol's prefixes in the order constant, "
        "parameter, input, state, else algebraic; each category list feeds exactly its model field; states and "
        "der_states come from the same list; String/other split is by complementary isinstance tests; outputs are "
        "filtered from states+alg_states by the 'output' prefix; the der() annotator's counter is symmetric and the "
        "state prefix is added only inside der(); each state gets one derivative symbol (create-once)."
    ),
    not_decided="declaration order inside categories for nested instances (depends on Symbol.order values); zero-size arrays.",
)

SITE = GEN + ":Generator.exitClass"
WANT_ORDER = ["constant", "parameter", "input", "state"]
WANT_FIELD = {"constant": {"constants", "string_constants"}, "parameter": {"parameters", "string_parameters"},
              "input": {"inputs"}, "state": {"states", "der_states"}, "<else>": {"alg_states"}}


def _chain(loop):
    """The if/elif chain of the categorisation loop: [(literal or None, target list name)]"""
    out = []
    sts = [s for s in loop.body if isinstance(s, ast.If)]
    if len(sts) != 1:
        return None
    node = sts[0]
    lv = loop.target.id
    while True:
        t = node.test
        lit = None
        if isinstance(t, ast.Compare) and len(t.ops) == 1 and isinstance(t.ops[0], ast.In) and norm(t.comparators[0]) == lv + ".prefixes":
            lit = const_str(t.left)
        apps = [c for s in node.body for c in calls(s) if isinstance(c.func, ast.Attribute) and c.func.attr == "append" and c.args and is_name(c.args[0], lv)]
        out.append((lit, [norm(c.func.value) for c in apps], len(node.body)))
        if len(node.orelse) == 1 and isinstance(node.orelse[0], ast.If):
            node = node.orelse[0]
            continue
        apps = [c for s in node.orelse for c in calls(s) if isinstance(c.func, ast.Attribute) and c.func.attr == "append" and c.args and is_name(c.args[0], lv)]
        out.append(("<else>", [norm(c.func.value) for c in apps], len(node.orelse)))
        return out


@SPEC.rule(
    "R10.1",
    "decision list: Generator.exitClass categorises each symbol by one if/elif/else chain whose tests are "
    "'<prefix>' in s.prefixes in the order constant, parameter, input, state, with a final catch-all; every branch "
    "appends the symbol to exactly one list and each list feeds exactly its model field; symbols are visited in "
    "declaration order",
)
def r10_1(ctx, rep):
    R = "R10.1"
    # (a table-driven first-match loop — for prefix, category in (("constant", constants), ...): if ...: ...; break / else: ... — has been unrolled
    # into the if/elif chain it stands for by the engine's normaliser)
    fn = ctx.func(GEN, "Generator.exitClass", R)
    loop = None
    for n in walk_local(fn):
        if isinstance(n, ast.For) and isinstance(n.target, ast.Name) and isinstance(n.iter, ast.Name):
            ch = _chain(n)
            if ch and len(ch) >= 3:
                loop, chain = n, ch
    if loop is None:
        raise MechanismMissing(R, "categorisation loop (if/elif chain over s.prefixes) not found in Generator.exitClass")
    lits = [c[0] for c in chain]
    rep.ob(R, SITE, "test order", lits == WANT_ORDER + ["<else>"],
           "tests must be %s then a catch-all; found %s (a symbol with two of these prefixes is classified by the first test)"
           % (WANT_ORDER, lits))
    lists = {}
    for lit, targets, nstmts in chain:
        ok = len(targets) == 1 and nstmts == 1
        rep.ob(R, SITE, "branch %s" % lit, ok, "branch must append the symbol to exactly one list and do nothing else; found %s" % targets)
        if len(targets) == 1:
            lists[lit] = targets[0]
    rep.ob(R, SITE, "distinct lists", len(set(lists.values())) == len(lists), "each category needs its own list: %s" % lists)
    # list -> model field
    feeds = {}
    for n in walk_local(fn):
        tgt = val = None
        if isinstance(n, ast.Assign) and len(n.targets) == 1:
            tgt, val = n.targets[0], n.value
        elif isinstance(n, ast.Expr) and isinstance(n.value, ast.Call) and isinstance(n.value.func, ast.Attribute) and n.value.func.attr == "extend":
            tgt, val = n.value.func.value, n.value.args[0] if n.value.args else None
        if tgt is None or val is None:
            continue
        if norm(tgt).startswith("self.model."):
            val = _inlined(val, fn.body, keep=set(lists.values()))  # through any chain of explanatory locals
        for c in ([val] if isinstance(val, ast.Call) else []) + [x for x in ast.walk(val) if isinstance(x, ast.Call)]:
            if isinstance(c.func, ast.Attribute) and c.func.attr == "_ast_symbols_to_variables" and c.args and isinstance(c.args[0], ast.Name):
                feeds.setdefault(c.args[0].id, set()).add(norm(tgt))
    # local intermediates (all_constants -> self.model.constants / string_constants)
    for n in walk_local(fn):
        if isinstance(n, ast.Assign) and isinstance(n.value, ast.ListComp) and isinstance(n.value.generators[0].iter, ast.Name):
            src = n.value.generators[0].iter.id
            for lst, tg in list(feeds.items()):
                if src in tg:
                    feeds[lst].add(norm(n.targets[0]))
    for lit, lst in lists.items():
        fields = {t.split(".")[-1] for t in feeds.get(lst, set()) if t.startswith("self.model.")}
        rep.ob(R, SITE, "list of %s -> model field" % lit, fields == WANT_FIELD[lit],
               "symbols classified as %s must end up in model.%s; found %s" % (lit, sorted(WANT_FIELD[lit]), sorted(fields)))
    # declaration order
    itv = loop.iter.id
    ok = False
    for n in walk_local(fn):
        if isinstance(n, ast.Assign) and is_name(n.targets[0], itv) and isinstance(n.value, ast.Call) and is_name(n.value.func, "sorted"):
            k = [kw.value for kw in n.value.keywords if kw.arg == "key"]
            ok = bool(k) and isinstance(k[0], ast.Lambda) and norm(k[0].body).endswith(".order") and ".symbols.values()" in norm(n.value.args[0])
    rep.ob(R, SITE, "declaration order", ok, "symbols must be visited sorted by their declaration order (Symbol.order)")


@SPEC.rule(
    "R10.2",
    "states and der_states are built from the same list, the latter with differentiate=True; constants/parameters are "
    "split into Variable and StringVariable lists by isinstance tests on the same source list",
)
def r10_2(ctx, rep):
    R = "R10.2"
    fn = ctx.func(GEN, "Generator.exitClass", R)
    st = dst = None
    for n in walk_local(fn):
        if isinstance(n, ast.Assign) and isinstance(n.value, ast.Call) and isinstance(n.value.func, ast.Attribute) \
                and n.value.func.attr == "_ast_symbols_to_variables":
            t = norm(n.targets[0])
            if t == "self.model.states":
                st = n.value
            elif t == "self.model.der_states":
                dst = n.value
    ok = st is not None and dst is not None and norm(st.args[0]) == norm(dst.args[0]) and not st.keywords and len(st.args) == 1 \
        and any(k.arg == "differentiate" and isinstance(k.value, ast.Constant) and k.value.value is True for k in dst.keywords)
    rep.ob(R, SITE, "states/der_states same source", ok,
           "model.states and model.der_states must be built from the same symbol list (index i of one is the derivative of index i of the other)")
    for base, a, b in (("constants", "constants", "string_constants"), ("parameters", "parameters", "string_parameters")):
        comps = {}
        for n in walk_local(fn):
            if isinstance(n, ast.Assign) and norm(n.targets[0]) in ("self.model." + a, "self.model." + b) and isinstance(_inlined(n.value, fn.body), ast.ListComp):
                lc = _inlined(n.value, fn.body)
                g = lc.generators[0]
                if len(g.ifs) == 1 and isinstance(g.ifs[0], ast.Call) and is_name(g.ifs[0].func, "isinstance") and is_name(lc.elt, g.target.id):
                    comps[norm(n.targets[0]).split(".")[-1]] = (norm(g.iter), norm(g.ifs[0].args[1]))
        ok = set(comps) == {a, b} and comps[a][0] == comps[b][0] and comps[a][1] == "Variable" and comps[b][1] == "StringVariable"
        rep.ob(R, SITE, "%s split" % base, ok, "model.%s = the Variable instances, model.%s = the StringVariable instances of one list; found %s" % (a, b, comps))
    # _ast_symbols_to_variables returns StringVariable exactly for python_type str
    f2 = ctx.func(GEN, "Generator._ast_symbols_to_variables", R)
    ok = False
    for n in walk_local(f2):
        if isinstance(n, ast.If) and isinstance(n.test, ast.Compare) and len(n.test.ops) == 1 and isinstance(n.test.ops[0], (ast.Eq, ast.Is)) \
                and isinstance(n.test.left, ast.Name) and is_name(n.test.comparators[0], "str"):
            b = any((call_name(c) or "") == "StringVariable" for s in n.body for c in calls(s))
            e = any((call_name(c) or "") == "Variable" for s in n.orelse for c in calls(s))
            ok = b and e
    rep.ob(R, GEN + ":Generator._ast_symbols_to_variables", "String -> StringVariable", ok,
           "String-typed symbols must become StringVariable, everything else Variable (the split above relies on it)")


@SPEC.rule("R10.4", "outputs: model.outputs lists the names of exactly the states and algebraic variables whose prefixes contain 'output'")
def r10_4(ctx, rep):
    R = "R10.4"
    fn = ctx.func(GEN, "Generator.exitClass", R)
    ok = False
    for n in walk_local(fn):
        if isinstance(n, ast.Assign) and norm(n.targets[0]) == "self.model.outputs" and isinstance(n.value, ast.ListComp):
            g = n.value.generators[0]
            src = norm(g.iter)
            v = g.target.id if isinstance(g.target, ast.Name) else "?"
            ok = src in ("itertools.chain(self.model.states, self.model.alg_states)", "chain(self.model.states, self.model.alg_states)",
                         "self.model.states + self.model.alg_states") \
                and len(g.ifs) == 1 and norm(g.ifs[0]) in ("'output' in %s.prefixes" % v,) and norm(n.value.elt) == "%s.symbol.name()" % v
    rep.ob(R, SITE, "outputs", ok, "outputs = [v.symbol.name() for v in states+alg_states if 'output' in v.prefixes]")


@SPEC.rule(
    "R10.5",
    "der() annotator: StateAnnotator.in_der is incremented on entering and decremented on leaving an expression under "
    "the same test (operator == 'der'); the 'state' prefix is appended only while in_der > 0 and only once",
)
def r10_5(ctx, rep):
    R = "R10.5"
    n = listener_symmetry(ctx, rep, R, TREE, "StateAnnotator")
    if n < 1:
        raise MechanismMissing(R, "no enter/exit state pair found in StateAnnotator")
    ms = ctx.methods(TREE, "StateAnnotator", R)
    for name in ("enterExpression", "exitExpression"):
        fn = ms.get(name)
        ok = False
        if fn is not None:
            for x in walk_local(fn):
                if isinstance(x, ast.If) and norm(x.test) in ("tree.operator == 'der'",):
                    ok = any(isinstance(s, ast.AugAssign) and norm(s.target) == "self.in_der" for s in x.body)
        rep.ob(R, "%s:StateAnnotator.%s" % (TREE, name), "guard operator == 'der'", ok, "the counter must change exactly for der(...) expressions")
    fn = ms.get("exitComponentRef")
    ok = False
    if fn is not None:
        cfg = CFG(fn, R)
        for node in cfg.stmts():
            for c in calls(node.ast):
                if isinstance(c.func, ast.Attribute) and c.func.attr == "append" and c.args and const_str(c.args[0]) == "state":
                    g1 = cfg.dominated_by(node.id, lambda x: x.kind == "assume" and x.taken and norm(x.ast) in ("self.in_der > 0", "self.in_der"))
                    g2 = cfg.dominated_by(node.id, lambda x: x.kind == "assume" and x.taken and norm(x.ast).startswith("'state' not in"))
                    ok = bool(g1) and bool(g2)
    rep.ob(R, TREE + ":StateAnnotator.exitComponentRef", "state only inside der()", ok,
           "the 'state' prefix may only be appended while inside a der() operand (in_der > 0), and not twice")
    # ... and there for every symbol of the class: from the successful look-up of the symbol every path to the end of the handler passes the
    # append or the knowledge that the prefix is already there (a differentiated `output` is a state all the same)
    if fn is not None:
        cfg = CFG(fn, R)
        apps = [x for x in cfg.stmts() if any(isinstance(c.func, ast.Attribute) and c.func.attr == "append" and norm(c.func.value).endswith(".prefixes") and c.args
                                              and const_str(c.args[0]) == "state" for c in calls(x.ast))]
        looks = [x for x in cfg.stmts() if isinstance(x.ast, ast.Assign) and ".symbols[" in norm(x.ast.value)]
        if apps and looks:
            recv = [norm(c.func.value) for c in calls(apps[0].ast) if isinstance(c.func, ast.Attribute) and c.func.attr == "append"][0]
            known = {x.id for x in cfg.nodes if x.kind == "assume" and assume_truth(x, "'state' in %s" % recv) is True}
            handlers = {h.id for h in cfg.nodes if h.kind == "handler"}  # leaving through the KeyError handler: not a symbol of this class
            w = None
            for l in looks:
                for s_ in cfg.succ[l.id]:
                    if s_ in handlers:
                        continue
                    w = w or cfg.path(s_, cfg.exit, avoid={a.id for a in apps} | known | handlers)
            rep.ob(R, TREE + ":StateAnnotator.exitComponentRef", "every differentiated symbol becomes a state", w is None,
                   "after the symbol was found the handler can end without `prefixes.append('state')` although 'state' is not known to be there: "
                   "some differentiated variables (by prefix, by kind) stay algebraic while their derivative symbol exists", path=cfg.describe(w) if w else "")


def _name_accessors_resolved(fn):
    """a copy of fn in which a local bound exactly once to `<x>.name()` (an explanatory temporary for a symbol's name) is replaced by that call"""
    from ..pyutil import ast_copy
    fn = ast_copy(fn)
    stores = {}
    for n in ast.walk(fn):
        if isinstance(n, ast.Name) and isinstance(n.ctx, ast.Store):
            stores[n.id] = stores.get(n.id, 0) + 1
    defs = {}
    for st in ast.walk(fn):
        if isinstance(st, ast.Assign) and len(st.targets) == 1 and isinstance(st.targets[0], ast.Name) and stores.get(st.targets[0].id) == 1 \
                and isinstance(st.value, ast.Call) and isinstance(st.value.func, ast.Attribute) and st.value.func.attr == "name" and not st.value.args \
                and isinstance(st.value.func.value, ast.Name):
            defs[st.targets[0].id] = st
    if not defs:
        return fn

    class T(ast.NodeTransformer):
        def visit_Name(self, n):
            return ast_copy(defs[n.id].value) if isinstance(n.ctx, ast.Load) and n.id in defs else n

    for holder in ast.walk(fn):
        for f_ in ("body", "orelse", "finalbody"):
            lst = getattr(holder, f_, None)
            if isinstance(lst, list):
                lst[:] = [x for x in lst if not any(x is d for d in defs.values())] or [ast.Pass()]
    T().visit(fn)
    return ast.fix_missing_locations(fn)


@SPEC.rule(
    "R10.6",
    "one derivative symbol per state: every creation of a der(<name>) symbol in Generator.get_derivative is dominated by "
    "`<name> not in self.derivative` and followed in the same block by its registration in self.derivative and self.nodes; "
    "otherwise the registered symbol is returned",
)
def r10_6(ctx, rep):
    R = "R10.6"
    fn = _name_accessors_resolved(ctx.func(GEN, "Generator.get_derivative", R))
    site = GEN + ":Generator.get_derivative"
    cfg = CFG(fn, R)
    n = 0
    for node in cfg.stmts():
        st = node.ast
        if isinstance(st, ast.Assign) and isinstance(st.value, ast.Call) and is_name(st.value.func, "_new_mx") and st.value.args \
                and "der(" in norm(st.value.args[0]):
            n += 1
            v = st.targets[0].id
            fmt = st.value.args[0]
            subj = None
            for c in ast.walk(fmt):
                if isinstance(c, ast.Call) and isinstance(c.func, ast.Attribute) and c.func.attr == "name":
                    subj = norm(c)
            guards = cfg.dominated_by(node.id, lambda x: assume_truth(x, "%s in self.derivative" % subj) is False)
            block = []
            for holder in ast.walk(fn):
                for f_ in ("body", "orelse", "finalbody"):
                    lst = getattr(holder, f_, None)
                    if isinstance(lst, list) and any(x is st for x in lst):
                        block = lst
            after = [norm(s) for s in block[[i for i, x in enumerate(block) if x is st][0] + 1:]] if block else []
            reg1 = "self.derivative[%s] = %s" % (subj, v) in after
            reg2 = any(a.startswith("self.nodes[") and a.endswith("[%s.name()] = %s" % (v, v)) for a in after)
            rep.ob(R, site, "creation of der(%s)" % subj, bool(guards) and reg1 and reg2,
                   "creating a derivative symbol must be guarded by `%s not in self.derivative` and registered in self.derivative "
                   "and self.nodes right away (guard=%s, derivative=%s, nodes=%s): otherwise a second der() of the same state makes "
                   "a second, free symbol" % (subj, bool(guards), reg1, reg2))
            # the other branch returns the registered symbol
            t = [x for x in cfg.nodes if assume_truth(x, "%s in self.derivative" % subj) is True]
            ok = False
            for a in t:
                for s in cfg.reachable(a.id):
                    sn = cfg.nodes[s]
                    if sn.kind == "stmt" and isinstance(sn.ast, ast.Return) and norm(sn.ast.value).startswith("self.derivative[%s]" % subj):
                        ok = True
                    # ... or bound to the name that is returned (both branches ending in one `return <name>[...]`)
                    if sn.kind == "stmt" and isinstance(sn.ast, ast.Assign) and isinstance(sn.ast.targets[0], ast.Name) \
                            and norm(sn.ast.value).startswith("self.derivative[%s]" % subj):
                        tgt = sn.ast.targets[0].id
                        for s2 in cfg.reachable(sn.id):
                            r2 = cfg.nodes[s2]
                            if r2.kind == "stmt" and isinstance(r2.ast, ast.Return) and r2.ast.value is not None and any(
                                    isinstance(x, ast.Name) and x.id == tgt for x in ast.walk(r2.ast.value)):
                                ok = True
            rep.ob(R, site, "reuse of der(%s)" % subj, ok, "when the derivative exists already it must be returned, not re-created")
    if n < 2:
        raise MechanismMissing(R, "fewer than 2 derivative-creation sites found")


@SPEC.rule(
    "R10.7",
    "the classification reads whole keywords: the prefix list it tests with `'parameter' in s.prefixes` etc. is built by the "
    "parser with one entry per keyword of type_prefix (same rule as R04.11: no whitespace split of getText())",
)
def r10_7(ctx, rep):
    from .c04 import gettext_split_rule

    gettext_split_rule(ctx, rep, "R10.7")


@SPEC.rule(
    "R10.8",
    "`top-level input` means top level: every leaf symbol registered by flatten_symbols under a non-empty instance prefix has had "
    "'input' and 'output' removed from its prefixes on every path (elementary and derived-type branches alike), and the removal is "
    "guarded by the non-empty prefix — an `input Voltage u` inside a component would otherwise be classified as a model input "
    "and a nested output would be listed among the outputs",
)
def r10_8(ctx, rep):
    from .c07 import io_stripping
    io_stripping(ctx, rep, "R10.8")


@SPEC.rule(
    "R10.9",
    "one derivative variable per state: what Generator.get_derivative remembers under a state's name (self.derivative[<x>.name()]) is "
    "the derivative symbol it has just created for that state with the symbol constructor — never a derived object such as the "
    "loop-indexed view der(x)[i], whose name does not identify the loop it belongs to and which is not a model variable",
)
def r10_9(ctx, rep):
    R = "R10.9"
    from ..cfg import reaching_defs, def_value
    fn = _name_accessors_resolved(ctx.func(GEN, "Generator.get_derivative", R))
    site = GEN + ":Generator.get_derivative"
    cfg = CFG(fn, R)
    n = 0
    for node in cfg.stmts():
        st = node.ast
        if not (isinstance(st, ast.Assign) and isinstance(st.targets[0], ast.Subscript) and norm(st.targets[0].value) == "self.derivative"):
            continue
        n += 1
        key = st.targets[0].slice
        val = st.value
        if isinstance(val, ast.Name):
            # the definitions of the stored name that reach this store (another branch may bind the same name to the registered symbol)
            rd = [d for d in reaching_defs(cfg, val.id).get(node.id, ()) if d != cfg.entry]
            defs = [def_value(cfg.nodes[d], val.id) for d in rd]
            defs = [d for d in defs if d is not None] if all(d is not None for d in defs) else []
        else:
            defs = [val]
        owner = norm(key.func.value) if isinstance(key, ast.Call) and isinstance(key.func, ast.Attribute) and key.func.attr == "name" else None
        fresh = bool(defs) and all(isinstance(d, ast.Call) and (call_name(d) or "").split(".")[-1] in ("_new_mx", "sym") and "der(" in norm(d) and owner is not None
                                   and ("%s.name()" % owner) in norm(d) for d in defs)
        rep.ob(R, site, "`%s` stores the state's own new derivative symbol" % norm(st)[:60], fresh,
               "the value remembered under %s is not a symbol created here as der(<that name>): later der() of the same name are answered with an object "
               "that is no derivative variable of the model (a second, free `derivative` appears in the equations)" % norm(key))
    if n < 1:
        raise MechanismMissing(R, "get_derivative no longer remembers derivative symbols in self.derivative")


@SPEC.rule(
    "R10.10",
    "a derivative written in a component's (initial) equations still makes a state: flatten_extends and flatten_symbols carry every "
    "section — equations, initial equations, statements, initial statements — of every base class and sub-component into the section of "
    "the same name; an initial equation merged into the wrong list (or dropped) leaves its der() unseen and the variable algebraic",
)
def r10_10(ctx, rep):
    from ..engine import run_as
    from .c07 import r07_1
    run_as(r07_1, "R10.10", ctx, rep)


# -- seeded variants ---------------------------------------------------------
from ._mut import delete_stmt_where, replace_in_func  # noqa: E402


@SPEC.mutant("parameter/input tests swapped", GEN, "R10.1", "test order")
def _m1(mod):
    def edit(fn):
        for n in ast.walk(fn):
            if isinstance(n, ast.If) and norm(n.test) == "'parameter' in s.prefixes":
                inner = n.orelse[0]
                n.test, inner.test = inner.test, n.test
                n.body, inner.body = inner.body, n.body
                return True
        return False

    return mod if replace_in_func(mod, "Generator.exitClass", edit) else None


@SPEC.mutant("inputs list feeds alg_states", GEN, "R10.1", "input")
def _m2(mod):
    def edit(fn):
        for n in ast.walk(fn):
            if isinstance(n, ast.Call) and isinstance(n.func, ast.Attribute) and n.func.attr == "_ast_symbols_to_variables" and is_name(n.args[0], "alg_states"):
                n.args[0] = ast.BinOp(left=ast.Name(id="alg_states", ctx=ast.Load()), op=ast.Add(), right=ast.Name(id="inputs", ctx=ast.Load()))
                return True
        return False

    return mod if replace_in_func(mod, "Generator.exitClass", edit) else None


@SPEC.mutant("in_der never decremented", TREE, "R10.5", "in_der")
def _m3(mod):
    return mod if delete_stmt_where(mod, "StateAnnotator.exitExpression", lambda st: isinstance(st, ast.AugAssign)) else None


@SPEC.mutant("derivative not registered", GEN, "R10.6", "creation")
def _m4(mod):
    return mod if delete_stmt_where(mod, "Generator.get_derivative", lambda st: norm(st) == "self.derivative[s.name()] = der_s") else None


@SPEC.mutant("outputs from all variables", GEN, "R10.4", "outputs")
def _m5(mod):
    def edit(fn):
        for n in ast.walk(fn):
            if isinstance(n, ast.Assign) and norm(n.targets[0]) == "self.model.outputs":
                n.value.generators[0].iter = ast.parse("itertools.chain(self.model.states, self.model.alg_states, self.model.inputs)", mode="eval").body
                return True
        return False

    return mod if replace_in_func(mod, "Generator.exitClass", edit) else None


@SPEC.mutant("der_states from other list", GEN, "R10.2", "states/der_states")
def _m6(mod):
    def edit(fn):
        for n in ast.walk(fn):
            if isinstance(n, ast.Assign) and norm(n.targets[0]) == "self.model.der_states":
                n.value.args[0] = ast.parse("sorted(ode_states, key=lambda x: x.name)", mode="eval").body
                return True
        return False

    return mod if replace_in_func(mod, "Generator.exitClass", edit) else None


@SPEC.mutant("state prefix outside der()", TREE, "R10.5", "state only inside")
def _m7(mod):
    def edit(fn):
        for n in ast.walk(fn):
            if isinstance(n, ast.If) and norm(n.test) == "self.in_der > 0":
                n.test = ast.parse("self.in_der >= 0", mode="eval").body
                return True
        return False

    return mod if replace_in_func(mod, "StateAnnotator.exitComponentRef", edit) else None


@SPEC.mutant("loop-indexed derivative view memoised under the indexed name", GEN, "R10.9", "own new derivative symbol")
def _m_der_memo(mod):
    def edit(fn):
        for n in ast.walk(fn):
            for f in ("body", "orelse"):
                lst = getattr(n, f, None)
                if isinstance(lst, list):
                    for i, st in enumerate(lst):
                        if isinstance(st, ast.Return) and isinstance(st.value, ast.Call) and norm(st.value.func) == "self.get_indexed_symbol":
                            lst[i:i + 1] = [ast.Assign(targets=[ast.Name(id="_view", ctx=ast.Store())], value=st.value, lineno=0),
                                            ast.parse("self.derivative[s.name()] = _view").body[0], ast.parse("return _view").body[0]]
                            return True
        return False

    return mod if replace_in_func(mod, "Generator.get_derivative", edit) else None
