"""C19 — cached and code-generated models equal fresh compiles (writer/reader agreement)."""
from __future__ import annotations

import ast

from ..cfg import CFG
from ..engine import AnalysisError, MechanismMissing, PropertySpec, norm
from ..pyutil import call_name, calls, const_str, is_name, literal, walk_local
from ._api import API, MODEL, SIG, db_accesses, guards_of, key_values, signature_of, api_fn

SPEC = PropertySpec(
    "C19",
    "Cached and code-generated models equal fresh compiles",
    decided=(
        "writer/reader agreement of everything that crosses the cache: the keys load_model reads are written by "
        "save_model on every path (guarded keys under the same guard); each Model field is stored from and restored "
        "to the field of the same name; every cached Model field is restored; Variable.to_dict/from_dict agree; the "
        "category order of the metadata function, its dependency tables and the loader agree; the seven-argument "
        "signature is the same at all ten sites."
    ),
    not_decided="that CasADi function (de)serialisation and C code generation preserve numerics.",
)

NOT_CACHED = {"equations", "initial_equations", "time", "_expand_mx_func"}


@SPEC.rule(
    "R19.1",
    "key agreement: every db[...] key read by load_model is written by save_model (loop/concatenated keys expanded), "
    "guarded keys use the same guard; a key that is a Model field is stored from model.<key> and restored into "
    "model.<key>",
)
def r19_1(ctx, rep):
    R = "R19.1"
    sv = api_fn(ctx, "save_model", R)
    ld = api_fn(ctx, "load_model", R)
    wacc, wunk = db_accesses(sv)
    racc, runk = db_accesses(ld)
    if wunk or runk:
        raise AnalysisError(R, "cannot resolve db keys: %s" % (wunk + runk))
    written = {}
    for k, m, n in wacc:
        if m == "w":
            written.setdefault(k, []).append(n)
    read = {}
    for k, m, n in racc:
        if m == "r":
            read.setdefault(k, []).append(n)
    if len(read) < 15:
        raise MechanismMissing(R, "only %d distinct keys read in load_model" % len(read))
    for k in sorted(read):
        ok = k in written
        why = "load_model reads db[%r] but save_model never writes it: loading any cache raises KeyError" % k
        if ok:
            wg = [g for g in guards_of(written[k][0], sv) if "delay_states" in g or "codegen" in g]
            rg = [g for g in guards_of(read[k][0], ld) if "delay_states" in g or "codegen" in g]
            if wg and not rg:
                ok = False
                why = "db[%r] is written only under `%s` but read unconditionally" % (k, wg[0])
            elif wg and rg:
                ok = wg[0].replace("model.", "") == rg[0].replace("model.", "")
                why = "db[%r] is written under `%s` but read under `%s`" % (k, wg[0], rg[0])
        rep.ob(R, API + ":load_model", "read db[%r]" % k, ok, why)
    # name agreement
    model_fields = _model_fields(ctx, R)
    # keys that carry the four function objects (db.update(objects)) are not Model fields even if a field has the same name
    def _display_value(n, k):
        """the value a dict display `db = {...}` gives key k; None when the key comes in through a `**mapping` entry"""
        if isinstance(n, ast.Assign) and isinstance(n.value, ast.Dict):
            for kk, vv in zip(n.value.keys, n.value.values):
                if kk is not None and const_str(kk) == k:
                    return vv
        return None

    model_fields -= {k for k, nodes in written.items() if all(isinstance(n, ast.Call) or (isinstance(n, ast.Assign) and _display_value(n, k) is None) for n in nodes)}
    for k in sorted(set(written) & model_fields):
        n = written[k][0]
        st = n
        while not isinstance(st, ast.stmt):
            st = getattr(st, "_parent")
        val = norm(st.value) if isinstance(st, ast.Assign) else ""
        if isinstance(n, ast.Assign):
            dv = _display_value(n, k)
            val = norm(dv) if dv is not None else ""
            ok = ("model.%s" % k) in val
            rep.ob(R, API + ":save_model", "db[%r] stored from model.%s" % (k, k), ok,
                   "the value stored under %r must be computed from model.%s; found `%s`" % (k, k, val[:80]))
            continue
        ok = ("model.%s" % k) in val or (isinstance(n.slice, ast.Name) and ("getattr(model, %s)" % n.slice.id) in val and k in (key_values(sv, n.slice, n) or []))
        rep.ob(R, API + ":save_model", "db[%r] stored from model.%s" % (k, k), ok,
               "the value stored under %r must be computed from model.%s; found `%s`" % (k, k, val[:80]))
    for k in sorted(set(read) & model_fields):
        restored = _restored_from(ld, k)
        rep.ob(R, API + ":load_model", "model.%s restored from db[%r]" % (k, k), restored,
               "what is read under %r must end up in model.%s" % (k, k))


def _model_fields(ctx, R):
    init = ctx.func(MODEL, "Model.__init__", R)
    return {s.targets[0].attr for s in walk_local(init) if isinstance(s, ast.Assign) and isinstance(s.targets[0], ast.Attribute) and is_name(s.targets[0].value, "self")}


def _restored_from(ld, k) -> bool:
    for s in walk_local(ld):
        if isinstance(s, ast.Assign) and norm(s.targets[0]) == "model.%s" % k and "db['%s']" % k in norm(s.value).replace('"', "'"):
            return True
    # loop form: variables = getattr(model, key); for d in db[key]: variables.append(...)
    for lp in walk_local(ld):
        if isinstance(lp, ast.For) and isinstance(lp.target, ast.Name):
            vals = key_values(ld, ast.Name(id=lp.target.id), lp.body[0]) if lp.body else None
            if vals and k in vals:
                t = [norm(x) for x in ast.walk(lp) if isinstance(x, (ast.Assign, ast.Expr, ast.For))]
                holders = [x.targets[0].id for x in ast.walk(lp) if isinstance(x, ast.Assign) and isinstance(x.targets[0], ast.Name)
                           and norm(x.value) == "getattr(model, %s)" % lp.target.id]
                if holders and any("db[%s]" % lp.target.id in x for x in t) and any(("%s.append(" % h) in x for h in holders for x in t):
                    return True
    return False


@SPEC.rule(
    "R19.2",
    "field coverage: every state attribute of Model.__init__ except {equations, initial_equations, time, "
    "_expand_mx_func} is restored on the CachedModel by load_model; Variable/StringVariable.to_dict write exactly the "
    "keys from_dict reads",
)
def r19_2(ctx, rep):
    R = "R19.2"
    ld = api_fn(ctx, "load_model", R)
    fields = sorted(_model_fields(ctx, R) - NOT_CACHED)
    if len(fields) < 10:
        raise MechanismMissing(R, "fewer than 10 cached Model fields")
    txt = [norm(s) for s in ast.walk(ld) if isinstance(s, (ast.Assign, ast.Expr))]
    for f in fields:
        ok = any(t.startswith("model.%s = " % f) for t in txt) or any(t.startswith("model.%s.append(" % f) or t.startswith("model.%s.extend(" % f) for t in txt) \
            or _restored_from(ld, f)
        rep.ob(R, API + ":load_model", "field " + f, ok, "Model.%s is part of a compiled model but load_model never fills it: the cached model differs from a fresh compile" % f)
    for cls in ("Variable", "StringVariable"):
        td = ctx.func(MODEL, cls + ".to_dict", R)
        fd = ctx.func(MODEL, cls + ".from_dict", R)
        w = set()
        for n in ast.walk(td):
            if isinstance(n, ast.Subscript) and isinstance(n.ctx, ast.Store):
                ks = key_values(td, n.slice, n)
                if ks:
                    w |= set(ks)
                elif is_name(n.slice, "attr"):
                    w.add("<CASADI_ATTRIBUTES>")
            if isinstance(n, ast.DictComp):
                lit = literal(n.generators[0].iter)
                if isinstance(lit, list):
                    w |= set(lit)
        r = set()
        for n in ast.walk(fd):
            if isinstance(n, ast.Subscript) and isinstance(n.ctx, ast.Load) and isinstance(n.value, ast.Name) and n.value.id == fd.args.args[1].arg:
                ks = key_values(fd, n.slice, n)
                if ks:
                    r |= set(ks)
                elif is_name(n.slice, "attr"):
                    r.add("<CASADI_ATTRIBUTES>")
        rep.ob(R, MODEL + ":%s.to_dict/from_dict" % cls, "keys", w == r and len(w) >= 4, "to_dict writes %s, from_dict reads %s" % (sorted(w), sorted(r)))


@SPEC.rule(
    "R19.3",
    "category order: the variable lists that order the outputs of variable_metadata_function equal load_model's "
    "variables_with_metadata and save_model's __metadata_dependent loop",
)
def r19_3(ctx, rep):
    R = "R19.3"
    vm = ctx.func(MODEL, "Model.variable_metadata_function", R)
    order_m = None
    for lp in walk_local(vm):
        if isinstance(lp, ast.For) and isinstance(lp.iter, ast.List) and all(isinstance(e, ast.Attribute) and is_name(e.value, "self") for e in lp.iter.elts):
            order_m = [e.attr for e in lp.iter.elts]
    ld = api_fn(ctx, "load_model", R)
    order_l = None
    for s in walk_local(ld):
        if isinstance(s, ast.Assign) and is_name(s.targets[0], "variables_with_metadata"):
            order_l = literal(s.value)
    sv = api_fn(ctx, "save_model", R)
    order_s = None
    for lp in walk_local(sv):
        if isinstance(lp, ast.For) and isinstance(literal(lp.iter), list) and any("__metadata_dependent" in norm(x) for x in ast.walk(lp)):
            order_s = literal(lp.iter)
    if order_m is None:
        raise MechanismMissing(R, "category list of variable_metadata_function not found")
    rep.ob(R, API + ":load_model", "variables_with_metadata", order_l == order_m,
           "load_model zips the metadata function's outputs with %s but the function produces them in the order %s" % (order_l, order_m))
    rep.ob(R, API + ":save_model", "__metadata_dependent categories", order_s is not None and sorted(order_s) == sorted(order_m),
           "dependency tables are written for %s, the metadata function covers %s" % (order_s, order_m))
    # load_model uses the zip with the function called on the parameter vector
    ok = False
    for st in walk_local(ld):
        if isinstance(st, ast.Assign) and isinstance(st.value, ast.Call) and call_name(st.value) == "dict" and st.value.args \
                and isinstance(st.value.args[0], ast.Call) and call_name(st.value.args[0]) == "zip" and len(st.value.args[0].args) == 2:
            z = st.value.args[0]
            f = z.args[1]
            if is_name(z.args[0], "variables_with_metadata") and isinstance(f, ast.Call) and (call_name(f) or "").endswith("variable_metadata_function") and f.args:
                a = f.args[0]
                # the parameter vector itself, or (when it is not bound to a name) the veccat of the parameters' symbols
                if is_name(a, "parameter_vector") or (isinstance(a, ast.Call) and call_name(a) in ("ca.veccat", "ca.vertcat") and ".symbol" in norm(a) and "parameters" in norm(a)):
                    ok = True
    rep.ob(R, API + ":load_model", "metadata zip", ok, "metadata[key] must pair category k with output k of variable_metadata_function(parameter_vector)")


def _list_alternatives(fn, e, depth=4):
    """the element lists an expression can stand for: a list display (starred names spliced in), a local bound to such lists (one
    alternative per binding), or a `+` of two of them; None when it is something else"""
    if depth == 0:
        return None
    if isinstance(e, (ast.List, ast.Tuple)):
        alts = [[]]
        for el in e.elts:
            if isinstance(el, ast.Starred) and isinstance(el.value, ast.Name):
                sub = _list_alternatives(fn, el.value, depth - 1)
                if sub is None:
                    alts = [a + [el.value] for a in alts]
                else:
                    alts = [a + s_ for a in alts for s_ in sub]
            elif isinstance(el, ast.Starred):
                alts = [a + [el.value] for a in alts]
            else:
                alts = [a + [el] for a in alts]
        return alts
    if isinstance(e, ast.Name):
        defs = [st.value for st in ast.walk(fn) if isinstance(st, ast.Assign) and len(st.targets) == 1 and is_name(st.targets[0], e.id)]
        out = []
        for d in defs:
            sub = _list_alternatives(fn, d, depth - 1)
            if sub is None:
                return None
            out.extend(sub)
        return out or None
    if isinstance(e, ast.BinOp) and isinstance(e.op, ast.Add):
        a, b = _list_alternatives(fn, e.left, depth - 1), _list_alternatives(fn, e.right, depth - 1)
        if a is None or b is None:
            return None
        return [x + y for x in a for y in b]
    return None


@SPEC.rule(
    "R19.4",
    "signature agreement: [time, states, der_states, alg_states, inputs, constants, parameters] is the argument order "
    "of the residual, initial-residual and delay-argument functions (both branches) and of save_model.all_symbols, "
    "load_model.args and load_model.all_symbols",
)
def r19_4(ctx, rep):
    R = "R19.4"
    sites = []
    for prop in ("dae_residual_function", "initial_residual_function", "delay_arguments_function"):
        fn = ctx.func(MODEL, "Model." + prop, R)
        k = 0
        for c in calls(fn):
            if call_name(c) == "ca.Function" and len(c.args) >= 2:
                # the input list may be written in place, built in a local, chosen per branch or spliced together (`[t, *state_inputs, c, p]`)
                for alt in _list_alternatives(fn, c.args[1]) or []:
                    k += 1
                    sites.append((MODEL + ":Model." + prop, "ca.Function inputs #%d" % k, signature_of(alt)))
    # every local list in save_model / load_model that starts with the model's time symbol is an argument list of those functions
    for rel, q in ((API, "save_model"), (API, "load_model")):
        fn = ctx.func(rel, q, R)
        k = 0
        for s in walk_local(fn):
            if isinstance(s, ast.Assign) and isinstance(s.targets[0], ast.Name) and isinstance(s.value, ast.List) and len(s.value.elts) >= 5 \
                    and norm(s.value.elts[0]).endswith(".time"):
                k += 1
                from ..pyutil import inlined as _inl
                sites.append(("%s:%s" % (rel, q), "argument list #%d" % k,
                              signature_of([_inl(e.value if isinstance(e, ast.Starred) else e, fn.body) for e in s.value.elts])))
    if len(sites) < 9:
        raise MechanismMissing(R, "only %d signature sites found, expected 9" % len(sites))
    for site, key, sig in sites:
        rep.ob(R, site, key, sig == SIG, "argument order %s differs from %s: values are fed to the wrong inputs" % (sig, SIG))


@SPEC.rule(
    "R19.5",
    "the function that save_model stores (pickled or code-generated) and load_model evaluates is "
    "Model.variable_metadata_function: its affine rebuild (A*p + b, evaluated at p = 0) must only be taken after the "
    "zero-Hessian test on every path — otherwise the cached model reports NaN where the fresh compile reports the "
    "attribute's value (same rule as R13.4, evaluated here because the cache is its only consumer)",
)
def r19_5(ctx, rep):
    from .c13 import affine_rebuild

    affine_rebuild(ctx, rep, "R19.5")


def _names(e):
    return {n.id for n in ast.walk(e) if isinstance(n, ast.Name)}


@SPEC.rule(
    "R19.6",
    "row-domain agreement of the metadata matrices: variable_metadata_function emits one row per *scalar element* "
    "(every attribute value is repmat-ed to the variable's symbol size before veccat), so load_model must address the "
    "rows of metadata[key] / independent_metadata[key] through an element offset advanced by the symbol's element count, "
    "never through the position of the variable in its list (the two only coincide when every variable is scalar)",
)
def r19_6(ctx, rep):
    R = "R19.6"
    vm = ctx.func(MODEL, "Model.variable_metadata_function", R)
    per_element = any(isinstance(c, ast.Call) and (call_name(c) or "").endswith("repmat") and any(
        isinstance(a, ast.Starred) and norm(a.value).endswith(".symbol.size()") for a in c.args) for c in calls(vm))
    rep.note("R19.6 producer: rows per variable = %s" % ("element count (repmat to symbol.size())" if per_element else "1"))
    ld = api_fn(ctx, "load_model", R)
    # names bound to dict(zip(<categories>, <... variable_metadata_function(...) ...>))
    tables = set()
    for st in walk_local(ld):
        if isinstance(st, ast.Assign) and isinstance(st.targets[0], ast.Name) and isinstance(st.value, ast.Call) and call_name(st.value) == "dict" \
                and any(isinstance(c, ast.Call) and (call_name(c) or "").endswith("variable_metadata_function") for c in ast.walk(st.value)):
            tables.add(st.targets[0].id)
    if len(tables) < 2:
        raise MechanismMissing(R, "load_model no longer builds the two metadata tables from variable_metadata_function")
    # counters of loops that enumerate the variables of one category
    n = 0
    offsets_done = set()
    for sub in walk_local(ld):
        if not (isinstance(sub, ast.Subscript) and isinstance(sub.value, ast.Subscript) and (isinstance(sub.value.value, ast.Name) and sub.value.value.id in tables)
                and isinstance(sub.slice, ast.Tuple) and len(sub.slice.elts) == 2):
            continue
        n += 1
        row = sub.slice.elts[0]
        # enclosing loops
        counters, accum = set(), set()
        p_ = getattr(sub, "_parent", None)
        loops = []
        while p_ is not None and p_ is not ld:
            if isinstance(p_, ast.For):
                loops.append(p_)
            p_ = getattr(p_, "_parent", None)
        for lp in loops:
            if isinstance(lp.iter, ast.Call) and call_name(lp.iter) == "enumerate" and isinstance(lp.target, ast.Tuple) and isinstance(lp.target.elts[0], ast.Name):
                counters.add(lp.target.elts[0].id)
        # local names (transitively) computed from a symbol's element count inside the enclosing loops
        sized = set()
        changed = True
        while changed:
            changed = False
            for lp in loops:
                for st in ast.walk(lp):
                    if isinstance(st, (ast.Assign, ast.AugAssign)):
                        tg = st.targets[0] if isinstance(st, ast.Assign) else st.target
                        if isinstance(tg, ast.Name) and tg.id not in sized:
                            txt = norm(st.value)
                            if any(k in txt for k in (".numel()", ".size1()", ".size()", ".shape")) or (_names(st.value) & sized):
                                sized.add(tg.id)
                                changed = True
        used = _names(row)
        if per_element:
            ok = bool(used & sized) and not (used & counters)
            why = "the row index `%s` is the variable's position in its list; after an unexpanded vector variable the rows of the " \
                  "metadata matrix are shifted, so the cached model reports another variable's attribute" % norm(row)
        else:
            ok = bool(used & counters) or bool(used & sized)
            why = "row index `%s` is not derived from the per-variable loop" % norm(row)
        rep.ob(R, API + ":load_model", "row index of %s[...] #%d" % (sub.value.value.id, n), ok, why)
        # the element offset: a local reset to 0 outside the per-variable loop and advanced inside it — by the element count, on every
        # iteration (a variable that needs nothing from the matrices still owns its rows)
        var_loops = [lp for lp in loops if isinstance(lp.iter, ast.Call) and call_name(lp.iter) == "enumerate"]
        if per_element and var_loops and id(var_loops[-1]) not in offsets_done:
            lp = var_loops[-1]
            offsets_done.add(id(lp))
            inside = {id(x) for x in ast.walk(lp)}
            zeroed = {st.targets[0].id for st in walk_local(ld) if isinstance(st, ast.Assign) and id(st) not in inside and isinstance(st.targets[0], ast.Name)
                      and isinstance(st.value, ast.Constant) and st.value.value == 0}
            offs = {v for v in zeroed if v in sized}
            if not offs:
                if ok:
                    raise MechanismMissing(R, "no element offset (a local reset to 0 before the per-variable loop and advanced in it) found")
                continue  # the row index is the variable's position: already reported above
            cfg = CFG(ast.Module(body=[lp], type_ignores=[]), R)
            it = [x for x in cfg.nodes if x.kind == "iter" and x.ast is lp][0]
            for v in sorted(offs):
                ups = [x for x in cfg.stmts() if isinstance(x.ast, (ast.Assign, ast.AugAssign)) and any(
                    isinstance(t, ast.Name) and t.id == v for t in (x.ast.targets if isinstance(x.ast, ast.Assign) else [x.ast.target]))]
                unsized = [x for x in ups if not (any(k in norm(x.ast.value) for k in (".numel()", ".size1()", ".size()", ".shape")) or (_names(x.ast.value) & (sized - {v})))]
                rep.ob(R, API + ":load_model", "offset `%s` advances by the element count only" % v, bool(ups) and not unsized,
                       "`%s` moves the row offset by something else than the variable's element count: after an unexpanded vector variable "
                       "every later variable reads another variable's rows" % (norm(unsized[0].ast) if unsized else "no update"))
                w = None
                for s_ in cfg.succ[it.id]:
                    if s_ == cfg.exit or s_ in {u.id for u in ups}:
                        continue
                    w = w or cfg.path(s_, it.id, avoid={u.id for u in ups})
                rep.ob(R, API + ":load_model", "offset `%s` advances on every iteration" % v, w is None,
                       "an iteration can end without advancing the row offset: the next variable then reads the skipped variable's rows",
                       path=cfg.describe(w) if w else "")
    if n < 2:
        raise MechanismMissing(R, "load_model no longer reads metadata[key][row, column]")


@SPEC.rule(
    "R19.7",
    "both evaluations of the metadata function in load_model take an argument of the parameter vector's shape: the vector "
    "is veccat of the parameter SYMBOLS (one entry per scalar element), so the NaN probe must be sized from it "
    "(repmat(np.nan, *parameter_vector.size()) / per symbol size) — one NaN per Variable is too short as soon as a "
    "parameter is an unexpanded vector, and every cache hit then raises a shape error",
)
def r19_7(ctx, rep):
    R = "R19.7"
    ld = api_fn(ctx, "load_model", R)
    site = API + ":load_model"

    def is_pvec(e):
        return isinstance(e, ast.Call) and call_name(e) in ("ca.veccat", "ca.vertcat") and ".symbol" in norm(e) and "parameters" in norm(e)

    pv = None
    for st in walk_local(ld):
        if isinstance(st, ast.Assign) and isinstance(st.targets[0], ast.Name) and is_pvec(st.value):
            pv = st.targets[0].id
    n = 0
    for c in ast.walk(ld):
        if isinstance(c, ast.Call) and (call_name(c) or "").endswith("variable_metadata_function") and len(c.args) == 1:
            n += 1
            a = c.args[0]
            if (pv and is_name(a, pv)) or is_pvec(a):
                ok = True  # the parameter vector itself (bound to a name or written in place)
            else:
                ok = any(isinstance(x, ast.Call) and isinstance(x.func, ast.Attribute) and x.func.attr in ("size", "numel", "size1", "shape")
                         and ((pv and is_name(x.func.value, pv)) or (isinstance(x.func.value, ast.Attribute) and x.func.value.attr == "symbol"))
                         for x in ast.walk(a)) or any(isinstance(x, ast.Attribute) and x.attr == "shape" and pv and is_name(x.value, pv) for x in ast.walk(a))
            rep.ob(R, site, "argument #%d of variable_metadata_function has the parameter vector's shape" % n, ok,
                   "`%s` is not sized from the parameter vector (or from the parameter symbols): with an unexpanded vector parameter the "
                   "function is called with too few entries and load_model raises on every cache hit" % norm(a)[:70])
    if n < 2:
        raise MechanismMissing(R, "load_model no longer evaluates variable_metadata_function twice (parameter values and NaN probe)")


@SPEC.rule(
    "R19.8",
    "a cached model is only served for the option set it was compiled with: load_model compares the stored (name, value) pairs "
    "of the options with the current ones, unchanged, before any payload is used (same rule as R20.1, evaluated here because a "
    "cache accepted for other option values is a cached model that differs from the fresh compile)",
)
def r19_8(ctx, rep):
    from .c20 import cache_validity

    cache_validity(ctx, rep, "R19.8")


def codegen_always_builds(ctx, rep, R):
    """every return of _codegen_model passes: add(<the function passed in>), generate, compile, link — the library that save_model
    stores is built from the function of *this* model, never an older file that happens to carry the same name"""
    fn = api_fn(ctx, "_codegen_model", R)
    site = API + ":_codegen_model"
    cfg = CFG(fn, R)
    params = [a.arg for a in fn.args.args]
    rets = [x for x in cfg.stmts() if isinstance(x.ast, ast.Return)]
    if not rets:
        raise MechanismMissing(R, "_codegen_model has no return")
    stages = {
        "the function passed in is added to the code generator": lambda c: isinstance(c.func, ast.Attribute) and c.func.attr == "add" and c.args and norm(c.args[0]) in params,
        "C code is generated": lambda c: isinstance(c.func, ast.Attribute) and c.func.attr == "generate",
        "the C code is compiled": lambda c: isinstance(c.func, ast.Attribute) and c.func.attr == "compile",
        "the library is linked": lambda c: isinstance(c.func, ast.Attribute) and c.func.attr in ("link", "link_shared_object", "link_shared_lib"),
    }
    for what, pred in stages.items():
        nodes = {x.id for x in cfg.nodes if x.kind in ("stmt", "with") and x.ast is not None and not isinstance(x.ast, (ast.FunctionDef, ast.Try)) and any(pred(c) for c in calls(x.ast))}
        if not nodes:
            raise MechanismMissing(R, "_codegen_model: no statement where " + what)
        bad = None
        for r in rets:
            bad = bad or cfg.must_pass(cfg.entry, r.id, nodes)
        rep.ob(R, site, "every return passes: " + what, bad is None,
               "_codegen_model can return a library path without this step: the file on disk (left by an earlier save of another model, "
               "other options, or an older version of the same model) is stored in the cache entry as if it were this model's function",
               path=cfg.describe(bad) if bad else "")


@SPEC.rule(
    "R19.9",
    "what save_model stores under codegen is built from the model being saved: every return of _codegen_model passes the "
    "add(f) of the function it was given, generate(), compile() and link() — no `library already there / newer than the sources` "
    "shortcut returns a file compiled from another function",
)
def r19_9(ctx, rep):
    codegen_always_builds(ctx, rep, "R19.9")


@SPEC.rule(
    "R19.10",
    "the producer of the metadata matrices leaves no gaps either: variable_metadata_function gives every variable of every category "
    "its rows and every attribute its column (no skip for `uninteresting` variables) — load_model's row offsets count every variable",
)
def r19_10(ctx, rep):
    from .c13 import metadata_rows_total
    metadata_rows_total(ctx, rep, "R19.10")


@SPEC.rule(
    "R19.11",
    "every symbolic attribute is classified: in save_model's dependency table the only way for an attribute to keep the default class "
    "(`not an MX, take it from the pickled dict`) is the failed test isinstance(<attribute>, ca.MX) — to_dict() blanks every MX attribute, "
    "so an MX that is skipped here (because it is constant, because it is a literal in disguise) comes back from the cache as None",
)
def r19_11(ctx, rep):
    from ..cfg import assume_truth
    R = "R19.11"
    fn = api_fn(ctx, "save_model", R)
    site = API + ":save_model"
    loops = [lp for lp in walk_local(fn) if isinstance(lp, ast.For) and "CASADI_ATTRIBUTES" in norm(lp.iter)
             and any(isinstance(st, ast.Assign) and isinstance(st.value, ast.Call) and is_name(st.value.func, "getattr") for st in lp.body)]
    if not loops:
        raise MechanismMissing(R, "the attribute loop of the dependency classification was not found in save_model")
    lp = loops[0]
    attr = next(st.targets[0].id for st in lp.body if isinstance(st, ast.Assign) and isinstance(st.value, ast.Call) and is_name(st.value.func, "getattr") and isinstance(st.targets[0], ast.Name))
    cfg = CFG(ast.Module(body=[lp], type_ignores=[]), R)
    it = [x for x in cfg.nodes if x.kind == "iter" and x.ast is lp][0]
    stores = {x.id for x in cfg.stmts() if isinstance(x.ast, ast.Assign) and isinstance(x.ast.targets[0], ast.Subscript) and isinstance(x.ast.targets[0].slice, ast.Tuple)}
    if not stores:
        raise MechanismMissing(R, "no store into the dependency table found in the attribute loop")
    not_mx = {x.id for x in cfg.nodes if x.kind == "assume" and assume_truth(x, "isinstance(%s, ca.MX)" % attr) is False}
    entry = [s_ for s_ in cfg.succ[it.id] if cfg.nodes[s_].kind == "assume" and cfg.nodes[s_].taken]
    w = cfg.path(entry[0], it.id, avoid=stores | not_mx) if entry else None
    rep.ob(R, site, "an attribute keeps the default class only when it is not an MX", w is None,
           "an iteration can end without classifying the attribute although `isinstance(%s, ca.MX)` has not been refuted: such an MX attribute is "
           "blanked by to_dict() and never restored by load_model" % attr, path=cfg.describe(w) if w else "")


PASS_THROUGH = ("outputs", "delay_states", "alias_relation", "string_constants", "string_parameters")
VALUE_CHANGING_FLAGS = ("-ffast-math", "-Ofast", "-funsafe-math-optimizations", "-ffinite-math-only", "-fno-signed-zeros", "-freciprocal-math", "-fassociative-math",
                        "-fno-trapping-math", "-fcx-limited-range", "/fp:fast", "-ffp-contract=fast", "-mrecip")


@SPEC.rule(
    "R19.12",
    "what is stored verbatim is restored verbatim: load_model assigns outputs, delay_states, alias_relation, string_constants and "
    "string_parameters exactly the value found under the same key of the cache — not a filtered, re-ordered or `cleaned` version (an output "
    "eliminated as an alias is in no variable list and still is an output of the fresh model); and the flags _codegen_model hands to the C "
    "compiler contain nothing that changes floating-point results (-ffast-math and its parts: fmin/fmax then propagate NaN where CasADi ignores it)",
)
def r19_12(ctx, rep):
    R = "R19.12"
    fn = api_fn(ctx, "load_model", R)
    site = API + ":load_model"
    found = 0
    for st in walk_local(fn):
        if isinstance(st, ast.Assign) and len(st.targets) == 1 and isinstance(st.targets[0], ast.Attribute) and st.targets[0].attr in PASS_THROUGH \
                and not isinstance(st.targets[0].value, ast.Subscript):
            f = st.targets[0].attr
            found += 1
            v = st.value
            ok = isinstance(v, ast.Subscript) and isinstance(v.value, ast.Name) and subscript_text(v) == f
            rep.ob(R, site, "model.%s is the stored value" % f, ok,
                   "`%s` does not restore the cached value as it is: the cached model's %s differs from the fresh model's" % (norm(st)[:80], f))
    if found < len(PASS_THROUGH):
        raise MechanismMissing(R, "load_model restores only %d of the %d verbatim fields" % (found, len(PASS_THROUGH)))
    cg = api_fn(ctx, "_codegen_model", R)
    flags = [c.value for c in ast.walk(cg) if isinstance(c, ast.Constant) and isinstance(c.value, str) and (c.value.startswith("-") or c.value.startswith("/"))]
    if len(flags) < 3:
        raise MechanismMissing(R, "compiler / linker flags not found in _codegen_model")
    bad = [f for f in flags if any(f == d or f.startswith(d + "=") or f.lower() == d.lower() for d in VALUE_CHANGING_FLAGS)]
    rep.ob(R, API + ":_codegen_model", "no value-changing floating-point flag among %d compiler flags" % len(flags), not bad,
           "%s lets the C compiler assume no NaN/Inf and reorder arithmetic: the compiled residual and metadata functions differ from the CasADi-evaluated ones "
           "wherever a NaN parameter (pymoca's default for an unset parameter) meets fmin/fmax" % bad)


def subscript_text(v):
    s = v.slice
    return s.value if isinstance(s, ast.Constant) and isinstance(s.value, str) else None


@SPEC.rule(
    "R19.13",
    "every row and column of the cached metadata is addressed by the variable and attribute it belongs to: no function of the CasADi API reads a for-loop's variable after that loop has ended (the value the last iteration left behind)",
)
def r19_13(ctx, rep):
    from ._literal import no_stale_loop_variables
    no_stale_loop_variables(ctx, rep, "R19.13", API, "the CasADi API")


@SPEC.rule(
    "R19.14",
    "every model has cache files of its own: the name of the .pymoca_cache file (save_model and load_model) and of each generated library "
    "contains the model's name as it was given — joined, concatenated or formatted in, never passed through a function, sliced or split "
    "(`Lib.Station` and `Other.Station` in one folder must not meet in `Station.pymoca_cache`)",
)
def r19_14(ctx, rep):
    from ..pyutil import inlined
    R = "R19.14"
    n = 0
    for fname in ("save_model", "load_model"):
        fn = api_fn(ctx, fname, R)
        site = API + ":" + fname
        mn = fn.args.args[1].arg if len(fn.args.args) > 1 else None
        if mn is None or "name" not in mn:
            raise MechanismMissing(R, "%s has no model-name parameter in second position" % fname)
        exprs = []
        for st in walk_local(fn):
            if isinstance(st, ast.Assign) and isinstance(st.targets[0], ast.Name) and ".pymoca_cache" in norm(inlined(st.value, fn.body, keep={mn})):
                exprs.append(("cache file", inlined(st.value, fn.body, keep={mn})))
        for c in calls(fn):
            if (call_name(c) or "").endswith("_codegen_model") and len(c.args) >= 3:
                exprs.append(("library", inlined(c.args[2], fn.body, keep={mn})))
        if fname == "load_model" and not exprs:
            raise MechanismMissing(R, "the cache file name is not built in load_model")
        for what, e in exprs:
            n += 1
            parents = {}
            for p_ in ast.walk(e):
                for ch in ast.iter_child_nodes(p_):
                    parents[id(ch)] = p_
            occ = [x for x in ast.walk(e) if isinstance(x, ast.Name) and x.id == mn]
            bad = []
            for x in occ:
                par = parents.get(id(x))
                ok = isinstance(par, ast.BinOp) and isinstance(par.op, ast.Add)
                ok = ok or isinstance(par, ast.FormattedValue)
                ok = ok or (isinstance(par, ast.Call) and x in par.args and ((call_name(par) or "").endswith("path.join")
                                                                             or (isinstance(par.func, ast.Attribute) and par.func.attr == "format")))
                ok = ok or (isinstance(par, ast.keyword) and isinstance(parents.get(id(par)), ast.Call) and isinstance(parents[id(par)].func, ast.Attribute)
                            and parents[id(par)].func.attr == "format")
                ok = ok or (isinstance(par, ast.BinOp) and isinstance(par.op, ast.Mod)) or (isinstance(par, ast.Tuple) and isinstance(parents.get(id(par)), ast.BinOp))
                if not ok:
                    bad.append(norm(par)[:60] if par is not None else norm(x))
            rep.ob(R, site, "%s name `%s` carries the model's name unchanged" % (what, norm(e)[:50]), bool(occ) and not bad,
                   "the name is built from %s: two models whose names differ only in what that drops share one %s" % (
                       ("`%s`" % bad[0]) if bad else "something other than the model's name", what))
    if n < 3:
        raise MechanismMissing(R, "fewer than 3 file names built from the model's name found in save_model / load_model")


@SPEC.rule(
    "R19.15",
    "a cached variable has the type and the aliases of the fresh one: Variable.to_dict stores `self.python_type` and `self.aliases` themselves "
    "under their own keys — once — and Variable.from_dict hands exactly those entries back to the constructor / the attribute; a translation "
    "table in between (type names, with bool tested after int) maps two types onto one",
)
def r19_15(ctx, rep):
    R = "R19.15"
    td = ctx.func(MODEL, "Variable.to_dict", R)
    fd = ctx.func(MODEL, "Variable.from_dict", R)
    for f in ("python_type", "aliases"):
        stores = [st for st in ast.walk(td) if isinstance(st, ast.Assign) and isinstance(st.targets[0], ast.Subscript) and const_str(st.targets[0].slice) == f]
        rep.ob(R, MODEL + ":Variable.to_dict", "%s stored as it is" % f, len(stores) == 1 and norm(stores[0].value) == "self." + f,
               "found %s" % ([norm(s_)[:60] for s_ in stores] or "no store"))
    dparam = fd.args.args[1].arg if len(fd.args.args) > 1 else "d"
    ctor = [c for c in calls(fd) if isinstance(c.func, ast.Name) and c.func.id == fd.args.args[0].arg and len(c.args) >= 2]
    rep.ob(R, MODEL + ":Variable.from_dict", "python_type handed back as it was stored", bool(ctor) and norm(ctor[0].args[1]) == "%s['python_type']" % dparam,
           "the constructor gets `%s` as the type" % (norm(ctor[0].args[1])[:60] if ctor else "?"))
    al = [st for st in ast.walk(fd) if isinstance(st, ast.Assign) and isinstance(st.targets[0], ast.Attribute) and st.targets[0].attr == "aliases"]
    rep.ob(R, MODEL + ":Variable.from_dict", "aliases handed back as they were stored", len(al) == 1 and norm(al[0].value) == "%s['aliases']" % dparam,
           "found %s" % [norm(a)[:60] for a in al])


@SPEC.rule(
    "R19.16",
    "every request is answered from the cache file and the current options, not from what the process loaded before: no function of "
    "casadi/api.py writes a module-level container or is wrapped in a caching decorator — a memo of loaded models keyed by the cache file "
    "(and its timestamp) returns the model of the option set it was first asked with",
)
def r19_16(ctx, rep):
    from .c25 import module_state_free
    module_state_free(ctx, rep, "R19.16", API, "the CasADi API (transfer_model, load_model, save_model and their helpers)")


@SPEC.rule(
    "R19.17",
    "whether a cached attribute must be re-evaluated with the parameters is decided by whether the parameters occur in it: the test in "
    "save_model that marks an attribute as parameter-dependent calls ca.depends_on(<attribute>, <parameter vector>) — a sensitivity test "
    "(`jacobian(...).is_zero()`) calls `max = if limited then 10 else 1000` independent, and load_model freezes it at the value it has for "
    "NaN parameters",
)
def r19_17(ctx, rep):
    R = "R19.17"
    fn = api_fn(ctx, "save_model", R)
    site = API + ":save_model"
    n = 0
    for st in ast.walk(fn):
        if isinstance(st, ast.If) and any(isinstance(x, ast.Assign) and "MX_DEPENDENT" in norm(x.value) for x in st.body + st.orelse):
            n += 1
            dep = [c for c in ast.walk(st.test) if isinstance(c, ast.Call) and (call_name(c) or "").split(".")[-1] == "depends_on" and len(c.args) == 2]
            deriv = [c for c in ast.walk(st.test) if isinstance(c, ast.Call) and (call_name(c) or "").split(".")[-1] in ("jacobian", "gradient", "hessian", "is_zero")]
            rep.ob(R, site, "parameter dependence is structural", bool(dep) and not deriv,
                   "the test is `%s`" % norm(st.test)[:90])
    if n < 1:
        raise MechanismMissing(R, "the classification of attributes as parameter-dependent was not found in save_model")


# -- seeded variants ---------------------------------------------------------
from ._mut import delete_stmt_where, replace_in_func  # noqa: E402


@SPEC.mutant("outputs stored empty", API, "R19.1", "outputs")
def _m1(mod):
    def edit(fn):
        for n in ast.walk(fn):
            if isinstance(n, ast.Assign) and norm(n.targets[0]) in ("db['outputs']",):
                n.value = ast.List(elts=[], ctx=ast.Load())
                return True
        return False

    return mod if replace_in_func(mod, "save_model", edit) else None


@SPEC.mutant("constants/parameters swapped in load_model.args", API, "R19.4", "args")
def _m2(mod):
    def edit(fn):
        for n in ast.walk(fn):
            if isinstance(n, ast.Assign) and is_name(n.targets[0], "args") and isinstance(n.value, ast.List):
                n.value.elts[5], n.value.elts[6] = n.value.elts[6], n.value.elts[5]
                return True
        return False

    return mod if replace_in_func(mod, "load_model", edit) else None


@SPEC.mutant("alias_relation not restored", API, "R19.2", "alias_relation")
def _m3(mod):
    return mod if delete_stmt_where(mod, "load_model", lambda st: norm(st).startswith("model.alias_relation =")) else None


@SPEC.mutant("delay_states not saved", API, "R19.1", "delay_states")
def _m4(mod):
    return mod if delete_stmt_where(mod, "save_model", lambda st: norm(st).startswith("db['delay_states'] =")) else None


@SPEC.mutant("metadata categories reordered in loader", API, "R19.3", "variables_with_metadata")
def _m5(mod):
    def edit(fn):
        for n in ast.walk(fn):
            if isinstance(n, ast.Assign) and is_name(n.targets[0], "variables_with_metadata"):
                n.value.elts[0], n.value.elts[1] = n.value.elts[1], n.value.elts[0]
                return True
        return False

    return mod if replace_in_func(mod, "load_model", edit) else None


@SPEC.mutant("string_parameters stored from string_constants", API, "R19.1", "string_parameters")
def _m6(mod):
    def edit(fn):
        for n in ast.walk(fn):
            if isinstance(n, ast.Assign) and norm(n.targets[0]) == "db['string_parameters']":
                n.value = ast.parse("model.string_constants", mode="eval").body
                return True
        return False

    return mod if replace_in_func(mod, "save_model", edit) else None


@SPEC.mutant("NaN probe with one entry per parameter variable", API, "R19.7", "argument #2")
def _m_nan(mod):
    def edit(fn):
        for c in ast.walk(fn):
            if isinstance(c, ast.Call) and (call_name(c) or "").endswith("variable_metadata_function") and c.args and "repmat" in norm(c.args[0]):
                c.args[0] = ast.parse("ca.veccat(*[np.nan for v in model.parameters])", mode="eval").body
                return True
        return False

    return mod if replace_in_func(mod, "load_model", edit) else None


@SPEC.mutant("existing library reused instead of compiled", API, "R19.9", "every return passes")
def _m_reuse_lib(mod):
    def edit(fn):
        for i, st in enumerate(fn.body):
            if "CodeGenerator" in norm(st):
                fn.body.insert(i, ast.parse("if os.path.exists(os.path.join(model_folder, library_name + '.so')):\n    return os.path.join(model_folder, library_name + '.so')").body[0])
                return True
        return False

    return mod if replace_in_func(mod, "_codegen_model", edit) else None


@SPEC.mutant("constant MX attributes left unclassified", API, "R19.11", "only when it is not an MX")
def _m_const_mx(mod):
    def edit(fn):
        for n in ast.walk(fn):
            if isinstance(n, ast.If) and norm(n.test) == "isinstance(attr, ca.MX)":
                n.test = ast.parse("isinstance(attr, ca.MX) and not attr.is_constant()", mode="eval").body
                return True
        return False

    return mod if replace_in_func(mod, "save_model", edit) else None


@SPEC.mutant("cached outputs filtered by the loaded variables", API, "R19.12", "is the stored value")
def _m_filter_outputs(mod):
    def edit(fn):
        for st in ast.walk(fn):
            if isinstance(st, ast.Assign) and norm(st.targets[0]).endswith(".outputs") and isinstance(st.value, ast.Subscript):
                st.value = ast.parse("[n for n in db['outputs'] if n in variable_dict]", mode="eval").body
                return True
        return False

    return mod if replace_in_func(mod, "load_model", edit) else None


@SPEC.mutant("cache file named after the short class name", API, "R19.14", "load_model")
def _m_short_name(mod):
    def edit(fn):
        for st in ast.walk(fn):
            if isinstance(st, ast.Assign) and is_name(st.targets[0], "db_file"):
                for x in ast.walk(st.value):
                    if isinstance(x, ast.BinOp) and is_name(x.left, "model_name"):
                        x.left = ast.parse("model_name.rpartition('.')[2]", mode="eval").body
                        return True
        return False

    return mod if replace_in_func(mod, "load_model", edit) else None
