"""Generic rule: listener state symmetry (used by C04, C07, C10).

For a listener class every depth counter incremented / stack pushed / flag set
in ``enterX`` must be undone in ``exitX`` under the same condition.
"""
from __future__ import annotations

import ast
from typing import Dict, List, Tuple

from ..engine import Context, Report, norm
from ..pyutil import dotted, parent, walk_local


def _guard_of(node, fn) -> str:
    """Normalised conjunction of the if-tests enclosing node inside fn."""
    tests = []
    p = parent(node)
    child = node
    while p is not None and p is not fn:
        if isinstance(p, ast.If):
            if child in p.body:
                tests.append(norm(p.test))
            else:
                tests.append("not (" + norm(p.test) + ")")
        child = p
        p = parent(p)
    return " and ".join(reversed(tests))


def _self_attr(node):
    if isinstance(node, ast.Attribute) and isinstance(node.value, ast.Name) and node.value.id == "self":
        return node.attr
    return None


def _effects(fn) -> List[Tuple[str, str, str, ast.AST]]:
    """(attr, effect, guard, node) with effect in inc/dec/push/pop/set_true/set_false."""
    out = []
    for n in walk_local(fn):
        if isinstance(n, ast.AugAssign) and _self_attr(n.target) and isinstance(n.value, ast.Constant) and n.value.value == 1:
            if isinstance(n.op, ast.Add):
                out.append((_self_attr(n.target), "inc", _guard_of(n, fn), n))
            elif isinstance(n.op, ast.Sub):
                out.append((_self_attr(n.target), "dec", _guard_of(n, fn), n))
        elif isinstance(n, ast.Call) and isinstance(n.func, ast.Attribute) and _self_attr(n.func.value):
            if n.func.attr in ("append", "appendleft"):
                out.append((_self_attr(n.func.value), "push", _guard_of(n, fn), n))
            elif n.func.attr in ("pop", "popleft"):
                out.append((_self_attr(n.func.value), "pop", _guard_of(n, fn), n))
        elif isinstance(n, ast.Assign) and len(n.targets) == 1 and _self_attr(n.targets[0]):
            if isinstance(n.value, ast.Constant) and n.value.value is True:
                out.append((_self_attr(n.targets[0]), "set_true", _guard_of(n, fn), n))
            elif isinstance(n.value, ast.Constant) and n.value.value is False:
                out.append((_self_attr(n.targets[0]), "set_false", _guard_of(n, fn), n))
    return out


UNDO = {"inc": "dec", "push": "pop", "set_true": "set_false"}


def listener_symmetry(ctx: Context, rep: Report, rule: str, rel: str, clsname: str) -> int:
    ms = ctx.methods(rel, clsname, rule)
    eff: Dict[str, list] = {name: _effects(fn) for name, fn in ms.items()}
    all_eff = [e for es in eff.values() for e in es]
    decremented = {a for a, e, g, n in all_eff if e in ("dec",)}
    popped = {a for a, e, g, n in all_eff if e == "pop"}
    falsed = {a for a, e, g, n in all_eff if e == "set_false" }
    # attributes compared as depth (self.x > 0, self.x == 0, if self.x)
    compared = set()
    for fn in ms.values():
        for n in walk_local(fn):
            if isinstance(n, ast.Compare):
                for x in [n.left] + n.comparators:
                    if _self_attr(x):
                        compared.add(_self_attr(x))
            elif isinstance(n, (ast.If, ast.While)) and _self_attr(n.test):
                compared.add(_self_attr(n.test))
            elif isinstance(n, ast.UnaryOp) and isinstance(n.op, ast.Not) and _self_attr(n.operand):
                compared.add(_self_attr(n.operand))
    # lists read as a stack (x[-1]) count as stacks even if no pop is left
    for fn in ms.values():
        for n in walk_local(fn):
            if isinstance(n, ast.Subscript) and _self_attr(n.value) and norm(n.slice) == "-1":
                popped.add(_self_attr(n.value))
    count = 0
    for name, es in sorted(eff.items()):
        if not name.startswith("enter"):
            continue
        twin = "exit" + name[len("enter"):]
        for attr, e, guard, node in es:
            if e not in UNDO:
                continue
            if e == "inc" and attr not in decremented and attr not in compared:
                continue  # a monotone counter (e.g. a declaration order), not a depth
            if e == "set_true" and attr not in falsed and attr not in compared:
                continue
            if e == "push" and attr not in popped:
                continue  # an accumulating list, not a stack
            site = "%s:%s.%s" % (rel, clsname, name)
            twin_eff = eff.get(twin, [])
            ok = any(a == attr and te == UNDO[e] and tg == guard for a, te, tg, _n in twin_eff)
            count += 1
            rep.ob(rule, site, "%s self.%s%s" % (e, attr, (" if " + guard) if guard else ""), ok,
                   "%s of self.%s in %s must be undone by a %s in %s under the same condition (%s); otherwise the state "
                   "leaks into everything walked afterwards" % (e, attr, name, UNDO[e], twin, guard or "unconditional"))
    # the reverse: an undo in exitX without its do in enterX
    for name, es in sorted(eff.items()):
        if not name.startswith("exit"):
            continue
        twin = "enter" + name[len("exit"):]
        for attr, e, guard, node in es:
            if e not in UNDO.values():
                continue
            do = [k for k, v in UNDO.items() if v == e][0]
            twin_eff = eff.get(twin, [])
            if any(a == attr and te == do for a, te, tg, _n in twin_eff):
                continue  # already paired above (guards compared there)
            # pops of stacks pushed elsewhere are fine only if some enter handler pushes
            if e == "pop" and any(a == attr and te == "push" for nm, ees in eff.items() if nm.startswith("enter") for a, te, tg, _n in ees):
                site = "%s:%s.%s" % (rel, clsname, name)
                count += 1
                rep.ob(rule, site, "%s self.%s" % (e, attr), False,
                       "%s pops self.%s but %s does not push it" % (name, attr, twin))
    return count
