"""C22 — delay durations are validated and delay arguments preserved."""
from __future__ import annotations

import ast
import re

from ..cfg import CFG
from ..engine import AnalysisError, MechanismMissing, PropertySpec, norm
from ..pyutil import call_name, calls, is_name, walk_local
from ._simplify import MODEL, passes
from ._api import api_fn
from .c18 import signature_lists

GEN = "src/pymoca/backends/casadi/generator.py"
API = "src/pymoca/backends/casadi/api.py"

SPEC = PropertySpec(
    "C22",
    "Delay durations are validated and delay arguments preserved",
    decided=(
        "the disallowed-symbol table of the duration check is the complement of {constants, parameters, fixed inputs} "
        "within the residual signature and a dependency raises; the check runs on every compile path after "
        "simplification; every substitution pass also rewrites the delay arguments; delay states / inputs / arguments "
        "are created, replaced and expanded together (parallel lists)."
    ),
    not_decided="ca.depends_on semantics; the values returned by the delay-argument function.",
)


@SPEC.rule(
    "R22.1",
    "disallowed table: _post_checks tests time and the symbols of every signature list except constants and "
    "parameters, inputs filtered by `not x.fixed`, against the concatenated durations, and raises on dependency",
)
def r22_1(ctx, rep):
    R = "R22.1"
    fn = ctx.func(MODEL, "Model._post_checks", R)
    site = MODEL + ":Model._post_checks"
    sig = signature_lists(ctx, R)
    want = [s for s in sig if s not in ("constants", "parameters")]
    table = None
    for s in walk_local(fn):
        if isinstance(s, ast.Assign) and isinstance(s.value, ast.Call) and call_name(s.value) in ("ca.vertcat", "ca.veccat") and len(s.value.args) >= 3:
            table = s
    if table is None:
        raise MechanismMissing(R, "disallowed-symbol table (ca.vertcat(...)) not found in _post_checks")
    entries = [norm(a) for a in table.value.args]
    rep.ob(R, site, "time", "self.time" in entries, "a duration depending on time must be rejected")
    for lst in want:
        if lst == "inputs":
            ok = any("self.inputs" in e and re.search(r"for (\w+) in self\.inputs if not \(?\1\.fixed\)?", e) for e in entries)
            rep.ob(R, site, "non-fixed inputs", ok, "durations may depend on fixed inputs only: the table must contain the symbols of inputs with `not x.fixed`")
        else:
            ok = any("self._symbols(self.%s)" % lst in e or re.search(r"for \w+ in self\.%s\b" % lst, e) for e in entries)
            rep.ob(R, site, lst, ok, "a duration depending on `%s` must be rejected, but the table does not contain them" % lst)
    for lst in ("constants", "parameters"):
        bad = any("self.%s)" % lst in e or "self.%s " % lst in e for e in entries)
        rep.ob(R, site, "allowed " + lst, not bad, "durations may depend on %s; they must not be in the disallowed table" % lst)
    tv = table.targets[0].id
    durations = None
    for s in walk_local(fn):
        if isinstance(s, ast.Assign) and isinstance(s.value, ast.Call) and re.search(r"(\w+)\.duration for \1 in self\.delay_arguments", norm(s.value)):
            durations = s.targets[0].id
    # on the control-flow graph: wherever the dependency test is known to hold, no path reaches the normal exit
    from ..cfg import assume_truth
    ok = False
    if durations:
        cfg = CFG(fn, R)
        expr = "ca.depends_on(%s, %s)" % (durations, tv)
        yes = [x for x in cfg.nodes if assume_truth(x, expr) is True]
        ok = bool(yes) and all(cfg.exit not in cfg.reachable(a.id) for a in yes)
    rep.ob(R, site, "dependency raises", ok, "ca.depends_on(<all durations>, <disallowed symbols>) must raise")


@SPEC.rule("R22.2", "must-call: every path of _compile_model to `return model` passes model._post_checks() after model.simplify(); transfer_model returns fresh models only from _compile_model")
def r22_2(ctx, rep):
    R = "R22.2"
    fn = api_fn(ctx, "_compile_model", R)
    cfg = CFG(fn, R)
    simp = [x for x in cfg.stmts() if ".simplify(" in norm(x.ast)]
    checks = {x.id for x in cfg.stmts() if "._post_checks()" in norm(x.ast)}
    rets = [x for x in cfg.stmts() if isinstance(x.ast, ast.Return)]
    if not simp or not rets:
        raise MechanismMissing(R, "simplify call / return not found in _compile_model")
    for r in rets:
        w = None
        for s in simp:
            w = w or cfg.must_pass(s.id, r.id, checks)
        w0 = cfg.must_pass(cfg.entry, r.id, {s.id for s in simp})
        rep.ob(R, API + ":_compile_model", "post-check before `%s`" % norm(r.ast), w is None and w0 is None and bool(checks),
               "a compiled model must be simplified and then checked for inadmissible delay durations before it is returned",
               path=cfg.describe(w or w0) if (w or w0) else "")
    fn = api_fn(ctx, "transfer_model", R)
    n = 0
    for r in walk_local(fn):
        if isinstance(r, ast.Return):
            v = r.value
            ok = True
            if isinstance(v, ast.Name):
                defs = [s for s in walk_local(fn) if isinstance(s, ast.Assign) and is_name(s.targets[0], v.id)]
                ok = bool(defs) and all(isinstance(d.value, ast.Call) and call_name(d.value) in ("_compile_model", "load_model") for d in defs)
            elif isinstance(v, ast.Call):
                ok = call_name(v) in ("_compile_model", "load_model")
            n += 1
            rep.ob(R, API + ":transfer_model", "return #%d %s" % (n, norm(v)[:50]), ok, "transfer_model may only return what _compile_model or load_model produced")


@SPEC.rule("R22.3", "delay arguments follow every substitution: each pass that substitutes the equations applies the same (symbols, values) to self.delay_arguments")
def r22_3(ctx, rep):
    R = "R22.3"
    for name, site, subs in passes(ctx, R):
        eq = [s for s in subs if s["store"] == "equations"][0]
        pair = (eq["symbols"], eq["values"])
        ok = any(s["store"] == "delay_arguments" and (s["symbols"], s["values"]) == pair for s in subs)
        rep.ob(R, site, "pass %s -> delay_arguments" % name, ok,
               "pass `%s` eliminates `%s` but leaves them in the delay arguments: delay_arguments_function cannot be built" % (name, pair[0]))


@SPEC.rule(
    "R22.4",
    "parallel lists stay aligned: a delay state name, its input Variable and its DelayArgument are appended together; "
    "a for-loop replaces the argument at the index of its state name; vector expansion pops/appends both lists together",
)
def r22_4(ctx, rep):
    R = "R22.4"
    fn = ctx.func(GEN, "Generator.exitExpression", R)
    site = GEN + ":Generator.exitExpression"
    found = False
    for node in ast.walk(fn):
        for fld in ("body", "orelse"):
            b = getattr(node, fld, None)
            if isinstance(b, list):
                t = [norm(s) for s in b if isinstance(s, (ast.Expr, ast.Assign, ast.AugAssign))]
                if any("self.model.delay_states.append(" in x for x in t):
                    found = True
                    ok = any("self.model.delay_arguments.append(" in x for x in t) and any("self.model.inputs.append(Variable(" in x for x in t)
                    rep.ob(R, site, "delay state/input/argument appended together", ok,
                           "the three appends must be in one block so that index i of delay_states, the delayed input and delay_arguments[i] belong together")
                    st = [x for x in t if "self.model.delay_states.append(" in x][0]
                    var = st.split("append(")[1].split(".name()")[0]
                    rep.ob(R, site, "same symbol for state name and input", any("self.model.inputs.append(Variable(%s))" % var == x for x in t),
                           "the input Variable must wrap the symbol whose name is recorded as delay state")
    if not found:
        raise MechanismMissing(R, "delay translation not found in exitExpression")
    fn = ctx.func(GEN, "Generator.exitForEquation", R)
    t = [norm(s) for s in ast.walk(fn) if isinstance(s, (ast.Assign, ast.Expr))]
    # the position of the delay state: `<i> = self.model.delay_states.index(...)`; the argument is read and replaced at <i>
    ivars = [s_.targets[0].id for s_ in ast.walk(fn) if isinstance(s_, ast.Assign) and isinstance(s_.targets[0], ast.Name)
             and norm(s_.value).startswith("self.model.delay_states.index(")]
    iv = ivars[0] if ivars else "?"
    rep.ob(R, GEN + ":Generator.exitForEquation", "argument replaced at the state's index",
           bool(ivars) and any(x.startswith("self.model.delay_arguments[%s] = DelayArgument(" % iv) for x in t)
           and any(x.split(" = ", 1)[-1] == "self.model.delay_arguments[%s]" % iv for x in t),
           "inside a for-loop the reshaped DelayArgument must replace the entry at the index of its delay state")
    fn = ctx.func(MODEL, "Model._expand_vectors", R)
    t = [norm(s) for s in ast.walk(fn) if isinstance(s, (ast.Assign, ast.Expr))]
    ps = [x for x in t if "self.delay_states.pop(" in x]
    pa = [x for x in t if "self.delay_arguments.pop(" in x]
    rep.ob(R, MODEL + ":Model._expand_vectors", "pairwise pop/append",
           bool(ps and pa) and ps[0].split("pop(")[1] == pa[0].split("pop(")[1]
           and sum("self.delay_states.append(" in x for x in t) == sum("self.delay_arguments.append(" in x for x in t) == 1,
           "expansion must remove and add entries of both lists together")


@SPEC.rule(
    "R22.5",
    "the delay-argument function returns each delayed expression with its own duration also after vector expansion: the element "
    "DelayArguments built by _expand_vectors take <argument>.expr[I] with the multi-index I their delay state is named with",
)
def r22_5(ctx, rep):
    from .c18 import delay_element_correspondence
    delay_element_correspondence(ctx, rep, "R22.5")


@SPEC.rule(
    "R22.6",
    "durations are rewritten like delayed expressions: every return of Model._substitute_delay_arguments (other than for an empty "
    "argument list) passes a ca.substitute of the expressions and one of the durations, both with the symbols and values it was given — "
    "if those are narrowed first, the narrowing looks at the durations as well as at the expressions. A duration that keeps a symbol some "
    "pass has eliminated is checked (and later evaluated) against a variable that no longer exists",
)
def r22_6(ctx, rep):
    from ..cfg import CFG
    from ..pyutil import inlined
    R = "R22.6"
    fn = ctx.func(MODEL, "Model._substitute_delay_arguments", R)
    site = MODEL + ":Model._substitute_delay_arguments"
    params = [a.arg for a in fn.args.args]
    if len(params) < 4:
        raise MechanismMissing(R, "_substitute_delay_arguments(self, delay_arguments, symbols, values) signature changed")
    dargs, syms, vals = params[1], params[2], params[3]
    cfg = CFG(fn, R)
    body = [st for st in ast.walk(fn) if isinstance(st, ast.stmt)]
    subs = []
    for x in cfg.stmts():
        for c in calls(x.ast):
            if (call_name(c) or "").endswith("substitute") and len(c.args) == 3:
                what = norm(inlined(c.args[0], body, keep={dargs}))
                if isinstance(c.args[0], ast.Name) and ".expr" not in what and ".duration" not in what:
                    # a list that is built first and substituted in place afterwards: look at every binding of the name
                    what = " ".join(norm(st.value) for st in body if isinstance(st, ast.Assign) and any(is_name(t, c.args[0].id) for t in st.targets))
                kind = "durations" if ".duration" in what else ("expressions" if ".expr" in what else None)
                if kind:
                    subs.append((kind, x, c))
    kinds = {k for k, _x, _c in subs}
    if kinds != {"durations", "expressions"}:
        rep.ob(R, site, "both the delayed expressions and the durations are substituted", False, "found substitution of %s only" % sorted(kinds))
        return
    rets = [x for x in cfg.stmts() if isinstance(x.ast, ast.Return)]
    for kind in ("expressions", "durations"):
        nodes = {x.id for k, x, _c in subs if k == kind}
        bad = None
        for r in rets:
            # a return taken because there is nothing to substitute in (empty list of delay arguments) is fine
            doms = cfg.dominated_by(r.id, lambda y: y.kind == "assume")
            if any(norm(g.ast).replace(" ", "") in ("not%s" % dargs, "len(%s)==0" % dargs, dargs) and ((not g.taken) == (norm(g.ast) == dargs)) for g in doms):
                continue
            if r.id in nodes:
                continue  # the substitution is an operand of the returned expression itself
            bad = bad or cfg.must_pass(cfg.entry, r.id, nodes)
        rep.ob(R, site, "every return passes the substitution of the " + kind, bad is None,
               "the method can return without substituting the %s: a pass that eliminates a symbol occurring there leaves it behind" % kind,
               path=cfg.describe(bad) if bad else "")
    # narrowing of (symbols, values)
    rebinds = [st for st in body if isinstance(st, ast.Assign) and any(isinstance(t, ast.Name) and t.id in (syms, vals) for tt in st.targets for t in ast.walk(tt))]
    for st in rebinds:
        v = norm(inlined(st.value, body, keep={dargs, syms, vals}))
        rep.ob(R, site, "narrowing `%s` considers expressions and durations" % norm(st)[:50], ".expr" in v and ".duration" in v,
               "the symbols to substitute are narrowed by looking at %s only" % ("the delayed expressions" if ".expr" in v else "something else than the delay arguments"))


@SPEC.rule(
    "R22.7",
    "the cached model's delay durations are decoded with the table they were encoded with: every list of all model symbols in save_model and "
    "load_model (the one whose positions are stored as duration dependencies, and the ones the functions are called with) has the categories in "
    "the order of the residual functions' signature — time, states, derivatives, algebraic variables, inputs, constants, parameters",
)
def r22_7(ctx, rep):
    from ..engine import run_as
    from .c19 import r19_4
    run_as(r19_4, "R22.7", ctx, rep)


@SPEC.rule(
    "R22.8",
    "inside a for-loop the delayed expression is the delayed expression: every value Generator.exitForEquation can store as the first argument "
    "of the DelayArgument it writes back is the result of mapping a function of the original delay argument's expression "
    "(`ca.Function(.., [<argument>.expr]).map(..).call(..)`) over the loop's values, or a reshaping of that result — a short cut that slices "
    "the array by the loop values ignores the subscript expression (`delay(a[i-1], tau)` then delays a[i])",
)
def r22_8(ctx, rep):
    from ..pyutil import inlined, stmt_list_of
    R = "R22.8"
    fn = ctx.func(GEN, "Generator.exitForEquation", R)
    site = GEN + ":Generator.exitForEquation"
    n = 0
    for st in ast.walk(fn):
        if not isinstance(st, ast.Assign):
            continue
        c = st.value
        if not (isinstance(c, ast.Call) and (call_name(c) or "").endswith("DelayArgument") and c.args and isinstance(c.args[0], ast.Name)
                and "delay_arguments" in norm(st.targets[0])):
            continue
        v = c.args[0].id
        block = stmt_list_of(st) or []
        defs = [d for b in block for d in ast.walk(b) if isinstance(d, ast.Assign) and any(
            isinstance(x, ast.Name) and x.id == v and isinstance(x.ctx, ast.Store) for t in d.targets for x in ast.walk(t))]
        if not defs:
            raise MechanismMissing(R, "no definition of `%s` found next to the DelayArgument it is stored in" % v)
        for d in defs:
            n += 1
            val = d.value
            reads_self_only = {x.id for x in ast.walk(val) if isinstance(x, ast.Name)} == {v}
            mapped = False
            if isinstance(val, ast.Call) and isinstance(val.func, ast.Attribute) and val.func.attr == "call":
                recv = inlined(val.func.value, block)
                if isinstance(recv, ast.Call) and isinstance(recv.func, ast.Attribute) and recv.func.attr == "map":
                    base = recv.func.value
                    if isinstance(base, ast.Call) and (call_name(base) or "").endswith("Function") and len(base.args) >= 3:
                        outs = base.args[2]
                        mapped = isinstance(outs, ast.List) and len(outs.elts) == 1 and isinstance(outs.elts[0], ast.Attribute) and outs.elts[0].attr == "expr"
            if mapped:
                # ... evaluated at the loop's own values: the list handed to the mapped function contains `<loop>.values`, the loop being the
                # one whose length the map was made for
                recv = inlined(val.func.value, block)
                n_arg = recv.args[2] if len(recv.args) > 2 else None
                if isinstance(n_arg, ast.Name):
                    n_arg = inlined(n_arg, fn.body, depth=1)  # the count may be a named local of the method
                loop_obj = None
                if isinstance(n_arg, ast.Call) and is_name(n_arg.func, "len") and n_arg.args and isinstance(n_arg.args[0], ast.Attribute) and n_arg.args[0].attr == "values":
                    loop_obj = norm(n_arg.args[0])
                fed = norm(inlined(val.args[0], block, keep={"indices"})) if val.args else ""
                rep.ob(R, site, "the mapped delay expression is evaluated at the loop's values", loop_obj is not None and ("[%s]" % loop_obj) in fed,
                       "the mapped function is called with `%s`; the loop index of `delay(i * x[i], tau)` must run over %s (the 1-based values of the "
                       "loop), not over positions" % (fed[:80], loop_obj))
            rep.ob(R, site, "`%s` comes from the delay argument's own expression" % norm(d)[:60], mapped or reads_self_only,
                   "the delayed expression written back is `%s`: not the original argument's expression evaluated over the loop" % norm(val)[:70])
    if n < 2:
        raise MechanismMissing(R, "the DelayArgument written back by exitForEquation (and the definitions of its expression) were not found")


@SPEC.rule(
    "R22.9",
    "`fixed` means this variable is fixed: the flag a delay duration may depend on is merged per alias group — its accumulator is bound from "
    "the group's own canonical variable before the group's aliases are visited (R16.1 evaluated for this property); an accumulator that "
    "survives from one group to the next marks every later canonical input as fixed, and a duration depending on a free input is accepted",
)
def r22_9(ctx, rep):
    from ..engine import run_as
    from .c16 import r16_1
    run_as(r16_1, "R22.9", ctx, rep)


@SPEC.rule(
    "R22.10",
    "`fixed` keeps its shape: attribute values are coerced with the variable's own type only (R13.10 evaluated for this property) — "
    "`bool(<fixed attribute>)` turns the list {true,false,true} of an array input into True, every element counts as fixed and a duration "
    "that depends on a free element is accepted",
)
def r22_10(ctx, rep):
    from ..engine import run_as
    from .c13 import r13_10
    run_as(r13_10, "R22.10", ctx, rep)


# -- seeded variants ---------------------------------------------------------
from ._mut import delete_stmt_where, replace_in_func  # noqa: E402


@SPEC.mutant("der_states allowed in durations", MODEL, "R22.1", "der_states")
def _m1(mod):
    def edit(fn):
        for n in ast.walk(fn):
            if isinstance(n, ast.Call) and call_name(n) == "ca.vertcat" and len(n.args) >= 4:
                n.args = [a for a in n.args if "der_states" not in norm(a)]
                return True
        return False

    return mod if replace_in_func(mod, "Model._post_checks", edit) else None


@SPEC.mutant("post check skipped", API, "R22.2", "post-check")
def _m2(mod):
    return mod if delete_stmt_where(mod, "_compile_model", lambda st: "_post_checks" in norm(st)) else None


@SPEC.mutant("fixed filter dropped", MODEL, "R22.1", "non-fixed inputs")
def _m3(mod):
    def edit(fn):
        for n in ast.walk(fn):
            if isinstance(n, ast.GeneratorExp) and "self.inputs" in norm(n) and n.generators[0].ifs:
                n.generators[0].ifs = []
                return True
        return False

    return mod if replace_in_func(mod, "Model._post_checks", edit) else None


@SPEC.mutant("delay state appended without argument", GEN, "R22.4", "appended together")
def _m4(mod):
    return mod if delete_stmt_where(mod, "Generator.exitExpression", lambda st: "self.model.delay_arguments.append(" in norm(st)) else None


@SPEC.mutant("check does not raise", MODEL, "R22.1", "raises")
def _m5(mod):
    def edit(fn):
        for n in ast.walk(fn):
            if isinstance(n, ast.If) and isinstance(n.test, ast.Call) and call_name(n.test) == "ca.depends_on":
                n.body = [ast.parse("logger.warning('Delay durations depend on states')").body[0]]
                return True
        return False

    return mod if replace_in_func(mod, "Model._post_checks", edit) else None


@SPEC.mutant("substitutions narrowed to the symbols of the delayed expressions", MODEL, "R22.6", "substitution of the")
def _m_narrow(mod):
    def edit(fn):
        fn.body.insert(0, ast.parse("if not [s for s in symbols if any(ca.depends_on(ca.MX(a.expr), s) for a in delay_arguments)]:\n    return delay_arguments").body[0])
        return True

    return mod if replace_in_func(mod, "Model._substitute_delay_arguments", edit) else None
