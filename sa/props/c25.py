"""C25 — ModelicaXML backend mirrors the flat model."""
from __future__ import annotations

import ast
import re

from ..engine import AnalysisError, MechanismMissing, PropertySpec, norm
from ..pyutil import call_name, calls, const_str, is_name, walk_local

XML = "src/pymoca/backends/xml/generator.py"
TREE = "src/pymoca/tree.py"
CLS = "XmlGenerator"

SPEC = PropertySpec(
    "C25",
    "ModelicaXML backend mirrors the flat model",
    decided=(
        "order-preserving element construction: children are built by comprehensions over the node's own child lists "
        "with no filter and no reordering call, an equation's element has the left side then the right side, operator "
        "names are passed through; and no AST node can become the child of two XML parents: lxml moves an element that "
        "is inserted a second time, so every ast.Equation built by the flattener must not use as a side a Symbol that "
        "also lives in the class's symbol table."
    ),
    not_decided="schema validity of the output; attribute text formats.",
)
SPEC.assumptions += ["lxml elements have a single parent: appending an element that already has one moves it"]


@SPEC.rule(
    "R25.1",
    "order preservation: every `*[self.xml[c] for c in <children>]` in XmlGenerator iterates the node's own child list "
    "(symbols.values(), equations, operands, arguments, classes.values(), blocks[0]) unfiltered and unreordered; "
    "exitEquation emits left then right; the operator name is the tree's",
)
def r25_1(ctx, rep):
    R = "R25.1"
    ms = ctx.methods(XML, CLS, R)
    n = 0
    ALLOWED = ("tree.symbols.values()", "tree.equations", "tree.operands", "tree.arguments", "tree.classes.values()", "tree.blocks[0]")
    for name, fn in sorted(ms.items()):
        site = "%s:%s.%s" % (XML, CLS, name)
        for c in calls(fn):
            for a in c.args:
                if isinstance(a, ast.Starred) and isinstance(a.value, ast.Attribute) and is_name(a.value.value, "self") and is_name(c.func, "E"):
                    n += 1
                    rep.ob(R, site, "children from " + norm(a.value)[:40], False,
                           "the children of this element are `*%s`, not `self.xml[c] for c in <own child list>`: a list kept on the generator while "
                           "walking also holds the elements of nested constructs, and lxml moves them out of their real parent" % norm(a.value)[:50])
                if isinstance(a, ast.Starred) and isinstance(a.value, ast.ListComp):
                    lc = a.value
                    g = lc.generators[0]
                    n += 1
                    ok = len(lc.generators) == 1 and not g.ifs and norm(g.iter) in ALLOWED and isinstance(g.target, ast.Name) \
                        and norm(lc.elt) == "self.xml[%s]" % g.target.id
                    rep.ob(R, site, "children from " + norm(g.iter), ok,
                           "children must be `self.xml[c] for c in <own child list>` without filter or reordering; found `%s`" % norm(lc)[:90])
    fn = ms.get("exitEquation")
    ok = False
    if fn is not None:
        for c in calls(fn):
            if is_name(c.func, "E") and len(c.args) == 3 and const_str(c.args[0]) == "equal":
                ok = norm(c.args[1]) == "self.xml[tree.left]" and norm(c.args[2]) == "self.xml[tree.right]"
    rep.ob(R, "%s:%s.exitEquation" % (XML, CLS), "left then right", ok, "<equal> must contain the left side then the right side")
    fn = ms.get("exitExpression")
    ok = False
    if fn is not None:
        kws = [k for c in calls(fn) if is_name(c.func, "E") for k in c.keywords if k.arg in ("name", "builtin")]
        # the attribute's name chosen together with the tag: E(tag, ..., **{attr: op_name}) with attr one of the two literals
        spread = []
        for c in calls(fn):
            if is_name(c.func, "E"):
                for k in c.keywords:
                    if k.arg is None and isinstance(k.value, ast.Dict) and len(k.value.keys) == 1 and isinstance(k.value.keys[0], ast.Name):
                        kn = k.value.keys[0].id
                        vals = set()
                        for s_ in ast.walk(fn):
                            if isinstance(s_, ast.Assign):
                                tg, vv = s_.targets[0], s_.value
                                pairs = list(zip(tg.elts, vv.elts)) if isinstance(tg, ast.Tuple) and isinstance(vv, ast.Tuple) and len(tg.elts) == len(vv.elts) else [(tg, vv)]
                                for t_, v_ in pairs:
                                    if is_name(t_, kn):
                                        vals.add(const_str(v_))
                        if vals and vals <= {"name", "builtin"}:
                            spread.append(ast.keyword(arg="name", value=k.value.values[0]))
        if spread and not kws:
            kws = spread * 2
        tparam = fn.args.args[1].arg
        def _op_leafs(v):
            return _op_leafs(v.body) + _op_leafs(v.orelse) if isinstance(v, ast.IfExp) else [norm(v)]
        cand = {}
        for s in ast.walk(fn):
            if isinstance(s, ast.Assign) and len(s.targets) == 1 and isinstance(s.targets[0], ast.Name):
                cand.setdefault(s.targets[0].id, []).extend(_op_leafs(s.value))
        # the operator's text: the operator itself, or its name when it is a reference — whether chosen by if/else or a conditional expression
        ops = {k for k, leafs in cand.items() if leafs and set(leafs) <= {"%s.operator" % tparam, "%s.operator.name" % tparam} and "%s.operator" % tparam in leafs}
        ok = len(kws) == 2 and all(isinstance(k.value, ast.Name) and k.value.id in ops for k in kws) and len(ops) == 1
    rep.ob(R, "%s:%s.exitExpression" % (XML, CLS), "operator name", ok, "the element's operator name must be the expression's operator")
    if n < 6:
        raise MechanismMissing(R, "fewer than 6 child comprehensions found in XmlGenerator")


def _symbol_vars(fn):
    """names that denote Symbols of a class's symbol table inside fn"""
    syms, dicts = set(), set()
    changed = True
    while changed:
        changed = False
        for n in walk_local(fn):
            if isinstance(n, ast.For) and isinstance(n.target, ast.Name):
                it = norm(n.iter)
                if it.endswith(".symbols.values()") or (isinstance(n.iter, ast.Call) and isinstance(n.iter.func, ast.Attribute)
                                                         and n.iter.func.attr == "values" and norm(n.iter.func.value) in dicts):
                    if n.target.id not in syms:
                        syms.add(n.target.id)
                        changed = True
            # the same table built in one expression: {k: s for s in X.symbols.values() ...} / OrderedDict((k, s) for s in ...)
            if isinstance(n, ast.Assign) and isinstance(n.targets[0], ast.Name):
                comp, val = None, None
                if isinstance(n.value, ast.DictComp):
                    comp, val = n.value, n.value.value
                elif isinstance(n.value, ast.Call) and (call_name(n.value) or "").split(".")[-1] in ("OrderedDict", "dict") and len(n.value.args) == 1 \
                        and isinstance(n.value.args[0], (ast.GeneratorExp, ast.ListComp)) and isinstance(n.value.args[0].elt, ast.Tuple) \
                        and len(n.value.args[0].elt.elts) == 2:
                    comp, val = n.value.args[0], n.value.args[0].elt.elts[1]
                if comp is not None and isinstance(val, ast.Name):
                    for g in comp.generators:
                        it = norm(g.iter)
                        from_syms = it.endswith(".symbols.values()") or (isinstance(g.iter, ast.Call) and isinstance(g.iter.func, ast.Attribute)
                                                                          and g.iter.func.attr == "values" and norm(g.iter.func.value) in dicts)
                        if from_syms and is_name(g.target, val.id) and n.targets[0].id not in dicts:
                            dicts.add(n.targets[0].id)
                            changed = True
            if isinstance(n, ast.Assign) and isinstance(n.targets[0], ast.Subscript) and isinstance(n.value, ast.Name) and n.value.id in syms:
                d = norm(n.targets[0].value)
                if not d.endswith(".symbols") and d not in dicts:
                    dicts.add(d)
                    changed = True
    return syms


@SPEC.rule(
    "R25.2",
    "one parent per element: no ast.Equation constructed in tree.py takes as left/right a Symbol object of the class's "
    "symbol table (the XML generator caches one element per AST node; a Symbol used as an equation side is moved out "
    "of the component list or the equation loses that side)",
)
def r25_2(ctx, rep):
    R = "R25.2"
    mod = ctx.module(TREE, R)
    n = 0
    for fn in [x for x in mod.body if isinstance(x, ast.FunctionDef)]:
        syms = _symbol_vars(fn)
        k = 0
        for c in calls(fn):
            if (call_name(c) or "").endswith("ast.Equation"):
                n += 1
                k += 1
                sides = {kw.arg: kw.value for kw in c.keywords if kw.arg in ("left", "right")}
                bad = [s for s, v in sides.items() if isinstance(v, ast.Name) and v.id in syms]
                rep.ob(R, "%s:%s" % (TREE, fn.name), "Equation#%d %s" % (k, norm(c)[:70]), not bad,
                       "side(s) %s of this equation are the Symbol object itself, which is also a child of the class: in XML the "
                       "element is moved, the equation ends up with one side only (use a ComponentRef to the symbol)" % bad)
    if n < 4:
        raise MechanismMissing(R, "fewer than 4 Equation constructions found in tree.py")


@SPEC.rule(
    "R25.3",
    "one fresh element per AST node: every handler of XmlGenerator stores under self.xml[tree] an element it has just "
    "constructed with E(...); an element taken from any other cache (per name, per value ...) would be shared by "
    "several parents, and lxml moves a shared element to its last parent",
)
def r25_3(ctx, rep):
    R = "R25.3"
    ms = ctx.methods(XML, CLS, R)
    n = 0
    for name, fn in sorted(ms.items()):
        if not name.startswith(("exit", "enter")):
            continue
        for st in walk_local(fn):
            if isinstance(st, ast.Assign) and norm(st.targets[0]) == "self.xml[tree]":
                n += 1
                v = st.value
                fresh = isinstance(v, ast.Call) and is_name(v.func, "E")
                if isinstance(v, ast.Name):
                    defs = [d for d in walk_local(fn) if isinstance(d, ast.Assign) and is_name(d.targets[0], v.id)]
                    fresh = bool(defs) and all(isinstance(d.value, ast.Call) and is_name(d.value.func, "E") for d in defs)
                rep.ob(R, "%s:%s.%s" % (XML, CLS, name), "element stored for the node", fresh,
                       "self.xml[tree] must be a newly built E(...) element; `%s` may hand the same element to two parents "
                       "(the earlier parent silently loses it)" % norm(v)[:70])
    if n < 8:
        raise MechanismMissing(R, "fewer than 8 element stores found in XmlGenerator")


@SPEC.rule(
    "R25.4",
    "literal values are rendered losslessly: exitPrimary and exitSymbol turn a node's .value into text only through str()/repr()/plain "
    "placeholders — no format specification with a precision or numeric presentation type, no round()/int(), neither in "
    "the handler nor in a helper it calls",
)
def r25_4(ctx, rep):
    from ._literal import literal_rule

    literal_rule(ctx, rep, "R25.4", XML, "XmlGenerator", ['exitPrimary', 'exitSymbol'],
                 "a literal operand / start / value item is written through a lossy conversion, so the document no longer mirrors the flat model's literal")


@SPEC.rule(
    "R25.5",
    "the document is generated from the tree that is passed in, on every call: every path of xml.generator.generate() to a return "
    "passes flatten(...) and the walk of the flat tree, what is returned is built from that walk's result, and generate() neither "
    "reads nor writes a module-level container (a result kept across calls is served for a tree that was edited in the meantime "
    "or for a new tree that happens to reuse the old one's id())",
)
def r25_5(ctx, rep):
    from ..cfg import CFG
    R = "R25.5"
    fn = ctx.func(XML, "generate", R)
    site = XML + ":generate"
    cfg = CFG(fn, R)
    flat = {x.id for x in cfg.stmts() if any(is_name(c.func, "flatten") for c in calls(x.ast))}
    walk = {x.id for x in cfg.stmts() if any(isinstance(c.func, ast.Attribute) and c.func.attr == "walk" for c in calls(x.ast))}
    rets = [x for x in cfg.stmts() if isinstance(x.ast, ast.Return)]
    if not flat or not walk or not rets:
        raise MechanismMissing(R, "generate() no longer flattens / walks / returns")
    for what, nodes in (("flatten", flat), ("walk of the flat tree", walk)):
        bad = None
        for r in rets:
            bad = bad or cfg.must_pass(cfg.entry, r.id, nodes)
        rep.ob(R, site, "every return passes %s" % what, bad is None,
               "generate() can return without %s: the returned document does not come from the tree that was passed in" % what,
               path=cfg.describe(bad) if bad else "")
    no_cross_call_state(ctx, rep, R, XML, "generate")


@SPEC.rule(
    "R25.6",
    "the tables of words the generator matches prefixes and names against are what they look like: no element of a list/tuple/set "
    "of names in xml/generator.py is spelled as two adjacent string literals (a lost comma joins \"continuous\" \"constant\" into one "
    "word, and a constant is then exported without its variability)",
)
def r25_6(ctx, rep):
    from ._literal import no_implicit_concat
    no_implicit_concat(ctx, rep, "R25.6", XML, "variability prefixes, built-in names")


def _child_collections(ctx, R):
    """list-valued child fields of the AST node classes (ast.py): name -> True"""
    out = set()
    mod = ctx.module("src/pymoca/ast.py", R)
    for c in mod.body:
        if isinstance(c, ast.ClassDef):
            for fn in c.body:
                if isinstance(fn, ast.FunctionDef) and fn.name == "__init__":
                    for st in ast.walk(fn):
                        if isinstance(st, (ast.Assign, ast.AnnAssign)):
                            t = st.targets[0] if isinstance(st, ast.Assign) else st.target
                            if isinstance(t, ast.Attribute) and is_name(t.value, "self") and (
                                    isinstance(st.value, ast.List) or "List[" in (norm(st.annotation) if isinstance(st, ast.AnnAssign) else "")):
                                out.add(t.attr)
    return out


# Child lists whose first element alone is the backend's subset (one line of reason each).  The property quantifies over "models in the
# XML backend's subset"; ModelicaXML's <when> element has exactly one <cond> and one <then> (backends/xml/parser.py exit_when reads
# tree[0] and tree[1] and nothing else), so a when-equation with elsewhen branches is outside that subset.  (That the generator drops
# the elsewhen branches silently instead of refusing them is recorded in DESIGN.md A.8 as an observation outside C25.)
OUT_OF_SUBSET = {
    ("exitWhenEquation", "conditions"): "ModelicaXML <when> has a single <cond>; elsewhen is outside the backend's subset",
    ("exitWhenEquation", "blocks"): "ModelicaXML <when> has a single <then>; elsewhen is outside the backend's subset",
}


@SPEC.rule(
    "R25.7",
    "operand for operand: wherever a handler of XmlGenerator builds the element of a node that has a list of children (operands of an "
    "expression, equations and symbols of a class), the whole list is passed on — starred, or through a comprehension over the whole "
    "field; single elements are picked by subscript only under a test of the list's length that makes that element the whole list "
    "(`len(...) == 1`) — a call with three arguments must not come out as an <apply> with two",
)
def r25_7(ctx, rep):
    R = "R25.7"
    ms = ctx.methods(XML, CLS, R)
    lists = _child_collections(ctx, R)
    n = 0
    for name, fn in sorted(ms.items()):
        if not name.startswith("exit"):
            continue
        arg = fn.args.args[1].arg if len(fn.args.args) > 1 else "tree"
        site = "%s:%s.%s" % (XML, CLS, name)
        # locals that hold (a mapping of) the whole child list
        whole = {}
        for st in walk_local(fn):
            if isinstance(st, ast.Assign) and len(st.targets) == 1 and isinstance(st.targets[0], ast.Name) and isinstance(st.value, (ast.ListComp, ast.GeneratorExp)):
                it = st.value.generators[0].iter
                if isinstance(it, ast.Attribute) and is_name(it.value, arg) and it.attr in lists and not st.value.generators[0].ifs:
                    whole[st.targets[0].id] = it.attr
        fields_used = {x.attr for x in ast.walk(fn) if isinstance(x, ast.Attribute) and is_name(x.value, arg) and x.attr in lists}
        for fld in sorted(fields_used):
            if (name, fld) in OUT_OF_SUBSET:
                rep.note("R25.7 %s.%s not examined: %s" % (name, fld, OUT_OF_SUBSET[(name, fld)]))
                continue
            n += 1
            # picks of single elements: <arg>.<fld>[k] / <whole local>[k] with a constant k
            picks = []
            for x in ast.walk(fn):
                if isinstance(x, ast.Subscript) and not isinstance(x.slice, ast.Slice) and isinstance(x.slice, (ast.Constant, ast.UnaryOp)):
                    base = x.value
                    if (isinstance(base, ast.Attribute) and is_name(base.value, arg) and base.attr == fld) or (isinstance(base, ast.Name) and whole.get(base.id) == fld):
                        picks.append(x)
            bad = []
            for pk in picks:
                guarded = False
                p_ = getattr(pk, "_parent", None)
                prev = pk
                while p_ is not None and p_ is not fn:
                    if isinstance(p_, ast.If) and prev in p_.body:
                        t = norm(p_.test).replace(" ", "")
                        if re.fullmatch(r"len\((%s\.%s|%s)\)==1" % (re.escape(arg), re.escape(fld), "|".join(map(re.escape, [k for k, v in whole.items() if v == fld])) or "@"), t):
                            guarded = True
                    prev, p_ = p_, getattr(p_, "_parent", None)
                if not guarded:
                    bad.append(norm(pk))
            rep.ob(R, site, "children `%s.%s` are passed on whole" % (arg, fld), not bad,
                   "single elements %s are picked out of the list without a test that the list has exactly that one element: the element built for a node "
                   "with more children than the picks loses the others" % bad)
    if n < 3:
        raise MechanismMissing(R, "fewer than 3 child-list uses found in XmlGenerator's exit handlers")


@SPEC.rule(
    "R25.8",
    "a literal attribute is left out only when it is absent: in XmlGenerator.exitSymbol a `continue` in a loop over attribute names that "
    "include start or value is reached only through `<value> is None` tests, never through the value's truthiness — `start = 0`, "
    "`value = 0.0` and `start = false` are values the document has to mirror",
)
def r25_8(ctx, rep):
    from ..cfg import CFG
    R = "R25.8"
    fn = ctx.methods(XML, CLS, R).get("exitSymbol")
    if fn is None:
        raise MechanismMissing(R, "XmlGenerator.exitSymbol not found")
    site = "%s:%s.exitSymbol" % (XML, CLS)
    cfg = CFG(fn, R)
    n = 0
    for lp in walk_local(fn):
        if not isinstance(lp, ast.For):
            continue
        words = {x.value for x in ast.walk(lp.iter) if isinstance(x, ast.Constant) and isinstance(x.value, str)}
        if not (words & {"start", "value"}):
            continue
        n += 1
        inside = {id(x) for st in lp.body for x in ast.walk(st)}
        # the local that holds the attribute's value
        vals = {st.targets[0].id for st in ast.walk(lp) if isinstance(st, ast.Assign) and isinstance(st.targets[0], ast.Name) and "getattr(" in norm(st.value)}
        bad = []
        for c in cfg.stmts():
            if isinstance(c.ast, ast.Continue) and id(c.ast) in inside:
                for g in cfg.dominated_by(c.id, lambda y: y.kind == "assume" and id(y.ast) in inside):
                    t = g.ast
                    names = {x.id for x in ast.walk(t) if isinstance(x, ast.Name)}
                    if not (names & vals):
                        continue
                    is_none = isinstance(t, ast.Compare) and len(t.ops) == 1 and isinstance(t.ops[0], (ast.Is, ast.IsNot)) and isinstance(t.comparators[0], ast.Constant) \
                        and t.comparators[0].value is None
                    if not is_none:
                        bad.append("`%s` (%s)" % (norm(t)[:40], "true" if g.taken else "false"))
        rep.ob(R, site, "items of %s are skipped only when absent" % sorted(words), not bad,
               "the `continue` is reached through %s: a start/value that is 0, 0.0 or false is treated like an attribute that was never set and "
               "its <item> is missing from the document" % ", ".join(bad[:3]))
    if n < 1:
        raise MechanismMissing(R, "no loop over the start/value attributes found in exitSymbol")


MUTABLE_CTORS = ("dict", "list", "set", "OrderedDict", "defaultdict", "deque", "Counter", "WeakValueDictionary", "WeakKeyDictionary", "WeakSet", "lru_cache", "cache",
                 "count", "cycle", "iter")  # a running counter / iterator is state as well: next() advances it for every later caller


def _module_containers(mod):
    """module-level names bound to a mutable container (literal or constructor call)"""
    out = set()
    for st in mod.body:
        if isinstance(st, (ast.Assign, ast.AnnAssign)) and st.value is not None:
            mutable = isinstance(st.value, (ast.Dict, ast.List, ast.Set, ast.DictComp, ast.ListComp, ast.SetComp)) or (
                isinstance(st.value, ast.Call) and (call_name(st.value) or "").split(".")[-1] in MUTABLE_CTORS)
            if mutable:
                for t in (st.targets if isinstance(st, ast.Assign) else [st.target]):
                    if isinstance(t, ast.Name):
                        out.add(t.id)
    return out


def module_state_free(ctx, rep, R, rel, what, allow_function_attrs=("parse.initialized_dbs",)):
    """no function or method of module `rel` writes to a module-level mutable container, and none is wrapped in a caching
    decorator; reading a module-level list/dict that is never written (a constant table) is fine"""
    mod = ctx.module(rel, R)
    state = _module_containers(mod)
    # class-level containers (shared by all instances): written through <Class>.<name>, self.<name> or cls.<name>
    cls_state = set()
    for c in ast.walk(mod):
        if isinstance(c, ast.ClassDef):
            cls_state |= _module_containers(c)
    written, deco = {}, []
    # attributes hung on a module-level function object (`f.last_result = ...`): per-process state just like a module global. The one the
    # parser keeps on purpose (the set of databases checked in this process) is decided by R01.12 / R02.8 and allowed here.
    module_funcs = {st.name for st in mod.body if isinstance(st, (ast.FunctionDef, ast.AsyncFunctionDef))}
    for n in ast.walk(mod):
        if isinstance(n, (ast.Assign, ast.AugAssign)):
            for t in (n.targets if isinstance(n, ast.Assign) else [n.target]):
                if isinstance(t, ast.Attribute) and isinstance(t.value, ast.Name) and t.value.id in module_funcs and "%s.%s" % (t.value.id, t.attr) not in allow_function_attrs:
                    host = n
                    while getattr(host, "_parent", None) is not None and not isinstance(host, (ast.FunctionDef, ast.AsyncFunctionDef)):
                        host = host._parent
                    if isinstance(host, (ast.FunctionDef, ast.AsyncFunctionDef)):
                        written.setdefault("%s.%s" % (t.value.id, t.attr), set()).add(host.name)
    for fn in ast.walk(mod):
        if not isinstance(fn, (ast.FunctionDef, ast.AsyncFunctionDef)):
            continue
        for d in fn.decorator_list:
            if any(k in norm(d) for k in ("lru_cache", "functools.cache", "cached_property", "memoize")):
                deco.append("%s (@%s)" % (fn.name, norm(d)[:30]))
        for n in ast.walk(fn):
            tgt = None
            if isinstance(n, (ast.Assign, ast.AugAssign)):
                for t in (n.targets if isinstance(n, ast.Assign) else [n.target]):
                    if isinstance(t, ast.Subscript) and isinstance(t.value, ast.Name):
                        tgt = t.value.id
            elif isinstance(n, ast.Call) and isinstance(n.func, ast.Attribute) and isinstance(n.func.value, ast.Name) and n.func.attr in (
                    "append", "extend", "add", "update", "setdefault", "insert", "pop", "clear", "remove", "discard", "popitem", "appendleft"):
                tgt = n.func.value.id
            elif isinstance(n, ast.Global):
                for nm in n.names:
                    written.setdefault(nm, set()).add(fn.name)
            elif isinstance(n, ast.Call) and isinstance(n.func, ast.Name) and n.func.id == "next" and n.args:
                # next(<module-level or class-level counter>)
                a0 = n.args[0]
                if isinstance(a0, ast.Name) and a0.id in state:
                    written.setdefault(a0.id, set()).add(fn.name)
                if isinstance(a0, ast.Attribute) and a0.attr in cls_state:
                    written.setdefault("<class>." + a0.attr, set()).add(fn.name)
            if tgt in state:
                written.setdefault(tgt, set()).add(fn.name)
            # the same through an attribute of the class / instance
            atgt = None
            if isinstance(n, (ast.Assign, ast.AugAssign)):
                for t in (n.targets if isinstance(n, ast.Assign) else [n.target]):
                    if isinstance(t, ast.Subscript) and isinstance(t.value, ast.Attribute):
                        atgt = t.value.attr
            elif isinstance(n, ast.Call) and isinstance(n.func, ast.Attribute) and isinstance(n.func.value, ast.Attribute) and n.func.attr in (
                    "append", "extend", "add", "update", "setdefault", "insert", "pop", "clear", "remove", "discard", "popitem", "appendleft"):
                atgt = n.func.value.attr
            if atgt in cls_state:
                written.setdefault("<class>." + atgt, set()).add(fn.name)
    # mutable default arguments that are changed in place or escape (stored, returned): one object shared by all calls
    MUT = ("append", "extend", "add", "update", "setdefault", "insert", "pop", "clear", "remove", "discard", "popitem", "appendleft", "sort")
    for fn in ast.walk(mod):
        if not isinstance(fn, (ast.FunctionDef, ast.AsyncFunctionDef)):
            continue
        a = fn.args
        pos = a.posonlyargs + a.args
        pairs = list(zip(pos[len(pos) - len(a.defaults):], a.defaults)) + [(k, d) for k, d in zip(a.kwonlyargs, a.kw_defaults) if d is not None]
        for prm, d in pairs:
            if not (isinstance(d, (ast.List, ast.Dict, ast.Set)) or (isinstance(d, ast.Call) and (call_name(d) or "").split(".")[-1] in MUTABLE_CTORS)):
                continue
            v = prm.arg
            rebound_first = bool(fn.body) and any(isinstance(st, ast.Assign) and any(is_name(t, v) for t in st.targets) for st in fn.body[:3])
            touched = False
            for n in ast.walk(fn):
                if isinstance(n, ast.Call) and isinstance(n.func, ast.Attribute) and is_name(n.func.value, v) and n.func.attr in MUT:
                    touched = True
                elif isinstance(n, (ast.Assign, ast.AugAssign)):
                    for t in (n.targets if isinstance(n, ast.Assign) else [n.target]):
                        if isinstance(t, ast.Subscript) and is_name(t.value, v):
                            touched = True
                        if isinstance(t, ast.Attribute) and isinstance(n, ast.Assign) and is_name(n.value, v):
                            touched = True  # stored on an object: the shared default escapes
                    if isinstance(n, ast.AugAssign) and is_name(n.target, v):
                        touched = True
                elif isinstance(n, ast.Return) and n.value is not None and is_name(n.value, v):
                    touched = True
            if touched and not rebound_first:
                written.setdefault("<default of %s>" % v, set()).add(fn.name)
    rep.ob(R, rel, "no state kept between calls in " + what, not written and not deco,
           "module-level container(s) written by functions: %s; caching decorators: %s — a result remembered from an earlier request (keyed by a "
           "class name, an id(), a reference tuple) is served for a later one although the tree, the enclosing scope or the lookup flags differ"
           % ({k: sorted(v) for k, v in written.items()}, deco))


def no_cross_call_state(ctx, rep, R, rel, fname):
    """`fname` of module `rel` neither reads nor writes a module-level container and is not wrapped in a caching decorator"""
    fn = ctx.func(rel, fname, R)
    site = "%s:%s" % (rel, fname)
    mod = ctx.module(rel, R)
    state = {t.id for st in mod.body if isinstance(st, (ast.Assign, ast.AnnAssign)) for t in (st.targets if isinstance(st, ast.Assign) else [st.target])
             if isinstance(t, ast.Name) and isinstance(st.value, (ast.Dict, ast.List, ast.Set, ast.Call)) and (
                 not isinstance(st.value, ast.Call) or (call_name(st.value) or "").split(".")[-1] in ("dict", "list", "set", "OrderedDict", "defaultdict", "WeakValueDictionary", "lru_cache"))}
    used = sorted({n.id for n in ast.walk(fn) if isinstance(n, ast.Name) and n.id in state})
    deco = [norm(d) for d in fn.decorator_list if "cache" in norm(d)]
    rep.ob(R, site, "no result kept across calls", not used and not deco,
           "generate() uses the module-level container(s) %s / decorator %s: a document produced for one tree can be returned for another" % (used, deco))


@SPEC.rule(
    "R25.9",
    "every <item> carries the name of the attribute it was built for: no function of the XML generator reads a for-loop's variable after that loop has ended (the value the last iteration left behind)",
)
def r25_9(ctx, rep):
    from ._literal import no_stale_loop_variables
    no_stale_loop_variables(ctx, rep, "R25.9", XML, "the XML generator")


@SPEC.rule(
    "R25.10",
    "names reach the document as they are in the flat model: every `name=` an XmlGenerator handler puts on an element is the node's own name "
    "(an attribute of the node being rendered), a literal, or a loop variable over literals — never the result of a call or of string "
    "arithmetic (an escape borrowed from the Python-emitting backend turns the variable `psi` into `psi_`: XML has no reserved names)",
)
def r25_10(ctx, rep):
    from ..pyutil import inlined
    R = "R25.10"
    ms = ctx.methods(XML, CLS, R)
    n = 0
    for name, fn in sorted(ms.items()):
        if not name.startswith(("exit", "enter")):
            continue
        site = "%s:%s.%s" % (XML, CLS, name)
        for c in calls(fn):
            if not is_name(c.func, "E"):
                continue
            for k in c.keywords:
                if k.arg != "name":
                    continue
                n += 1
                v = inlined(k.value, fn.body)
                vals = [v]
                if isinstance(v, ast.Name):
                    # a local bound more than once (an escape loop `while name in RESERVED: name += "_"`): every value it is given counts
                    vals += [st.value for st in ast.walk(fn) if isinstance(st, (ast.Assign, ast.AugAssign))
                             and any(is_name(t, v.id) for t in (st.targets if isinstance(st, ast.Assign) else [st.target]))]
                    vals += [st for st in ast.walk(fn) if isinstance(st, ast.AugAssign) and is_name(st.target, v.id)]
                def alternatives(w):
                    # which value a conditional expression chooses is decided by its test; the values are its two arms
                    return alternatives(w.body) + alternatives(w.orelse) if isinstance(w, ast.IfExp) else [w]

                vals = [a for w in vals for a in alternatives(w)]
                computed = [x for w in vals for x in ast.walk(w) if isinstance(x, (ast.Call, ast.BinOp, ast.JoinedStr, ast.Subscript, ast.AugAssign))]
                rep.ob(R, site, "name of <%s> is taken over unchanged" % (const_str(c.args[0]) if c.args else "?"), not computed,
                       "the element's name is `%s`: the document names something the flat model does not contain" % norm(v)[:70])
    if n < 5:
        raise MechanismMissing(R, "fewer than 5 `name=` attributes found in XmlGenerator")


@SPEC.rule(
    "R25.11",
    "every document is rendered from the tree it is given: no function of the XML generator module is wrapped in a caching decorator or "
    "writes a module-level container — functools.lru_cache keys True and 1.0 alike, and the literal rendered first is served for the other",
)
def r25_11(ctx, rep):
    module_state_free(ctx, rep, "R25.11", XML, "the XML generator module")


# -- seeded variants ---------------------------------------------------------
from ._mut import replace_in_func  # noqa: E402


@SPEC.mutant("components sorted by name", XML, "R25.1", "exitClass")
def _m1(mod):
    def edit(fn):
        for n in ast.walk(fn):
            if isinstance(n, ast.ListComp) and norm(n.generators[0].iter) == "tree.symbols.values()":
                n.generators[0].iter = ast.parse("sorted(tree.symbols.values(), key=lambda s: s.name)", mode="eval").body
                return True
        return False

    return mod if replace_in_func(mod, "XmlGenerator.exitClass", edit) else None


@SPEC.mutant("equation sides swapped", XML, "R25.1", "left then right")
def _m2(mod):
    def edit(fn):
        for c in ast.walk(fn):
            if isinstance(c, ast.Call) and is_name(c.func, "E") and len(c.args) == 3:
                c.args[1], c.args[2] = c.args[2], c.args[1]
                return True
        return False

    return mod if replace_in_func(mod, "XmlGenerator.exitEquation", edit) else None


@SPEC.mutant("operands filtered", XML, "R25.1", "exitExpression")
def _m3(mod):
    def edit(fn):
        for n in ast.walk(fn):
            if isinstance(n, ast.ListComp) and norm(n.generators[0].iter) == "tree.operands":
                n.generators[0].ifs = [ast.parse("c in self.xml", mode="eval").body]
                return True
        return False

    return mod if replace_in_func(mod, "XmlGenerator.exitExpression", edit) else None


@SPEC.mutant("local element cached per variable name", XML, "R25.3", "exitComponentRef")
def _m4(mod):
    def edit(fn):
        for st in fn.body:
            if isinstance(st, ast.Assign) and norm(st.targets[0]) == "self.xml[tree]":
                st.value = ast.parse("self._locals.setdefault(tree.name, E('local', name=tree.name))", mode="eval").body
                return True
        return False

    return mod if replace_in_func(mod, "XmlGenerator.exitComponentRef", edit) else None


@SPEC.mutant("literal operands written with %g", XML, "R25.4", "lossless")
def _m_lit(mod):
    def edit(fn):
        for n in ast.walk(fn):
            if isinstance(n, ast.Call) and is_name(n.func, "str") and n.args and isinstance(n.args[0], ast.Attribute) and n.args[0].attr == "value":
                new = ast.BinOp(left=ast.Constant(value="%g"), op=ast.Mod(), right=n.args[0])
                n.func, n.args = ast.Name(id="str", ctx=ast.Load()), [new]
                return True
        return False

    return mod if replace_in_func(mod, "XmlGenerator.exitPrimary", edit) else None


@SPEC.mutant("generated documents memoised by id(tree)", XML, "R25.5", "no result kept")
def _m_memo(mod):
    for i, st in enumerate(mod.body):
        if isinstance(st, ast.FunctionDef) and st.name == "generate":
            mod.body.insert(i, ast.parse("_generated = {}").body[0])
            st.body.insert(1 if isinstance(st.body[0], ast.Expr) else 0, ast.parse(
                "if (id(ast_tree), model_name) in _generated:\n    return _generated[(id(ast_tree), model_name)]").body[0])
            return mod
    return None


@SPEC.mutant("n-ary application keeps first and last operand", XML, "R25.7", "passed on whole")
def _m_first_last(mod):
    def edit(fn):
        for n in ast.walk(fn):
            if isinstance(n, ast.Call) and is_name(n.func, "E") and n.args and isinstance(n.args[0], ast.Constant) and n.args[0].value == "apply":
                n.args = [n.args[0], ast.parse("self.xml[tree.operands[0]]", mode="eval").body, ast.parse("self.xml[tree.operands[-1]]", mode="eval").body]
                return True
        return False

    return mod if replace_in_func(mod, "XmlGenerator.exitExpression", edit) else None


@SPEC.mutant("falsy start/value treated as absent", XML, "R25.8", "skipped only when absent")
def _m_falsy(mod):
    def edit(fn):
        for n in ast.walk(fn):
            if isinstance(n, ast.For) and "'start'" in norm(n.iter):
                for st in n.body:
                    if isinstance(st, ast.If) and "is None" in norm(st.test):
                        st.test = ast.UnaryOp(op=ast.Not(), operand=st.test.left)
                        return True
        return False

    return mod if replace_in_func(mod, "XmlGenerator.exitSymbol", edit) else None


@SPEC.mutant("fixed item named by the previous loop's variable", XML, "R25.9", "no loop variable is read")
def _m_stale_f(mod):
    def edit(fn):
        for i, st in enumerate(fn.body):
            if isinstance(st, ast.For) and norm(st.iter) == "['fixed']":
                fn.body[i] = ast.parse("if tree.fixed.value:\n    items.append(E('item', E('true'), name=f))").body[0]
                return True
        return False

    return mod if replace_in_func(mod, "XmlGenerator.exitSymbol", edit) else None
