"""Shared facts about Model._simplify_once / _expand_vectors (used by C15, C18, C22)."""
from __future__ import annotations

import ast
from typing import Dict, List

from ..engine import AnalysisError, Context, norm
from ..pyutil import call_name, calls, subscript_key, walk_local

MODEL = "src/pymoca/backends/casadi/model.py"

STORES = ("equations", "initial_equations", "delay_arguments")
META_PASSES = {"replace_parameter_expressions", "replace_constant_expressions", "replace_parameter_values",
               "replace_constant_values", "_expand_vectors"}


def option_blocks(fn) -> Dict[str, ast.If]:
    """top-level `if options["X"] ...:` blocks of _simplify_once keyed by their first option name
    (a second block for the same option gets a #n suffix)."""
    out = {}
    for st in fn.body:
        if isinstance(st, ast.If):
            keys = [subscript_key(x) for x in ast.walk(st.test) if isinstance(x, ast.Subscript) and subscript_key(x)]
            if keys:
                k = keys[0]
                if len(keys) > 1:
                    k = "+".join(keys)
                n = 1
                base = k
                while k in out:
                    n += 1
                    k = "%s#%d" % (base, n)
                out[k] = st
    return out


def substitutions(block_stmts) -> List[dict]:
    """Every substitution of one expression store inside the given statements:
    {store, symbols, values, node}."""
    out = []
    for st in block_stmts:
        for n in ast.walk(st):
            if isinstance(n, ast.Assign) and len(n.targets) == 1 and isinstance(n.value, ast.Call):
                t = norm(n.targets[0])
                c = n.value
                cn = call_name(c) or ""
                if t.startswith("self.") and t[5:] in STORES and c.args and norm(c.args[0]) == t:
                    if cn in ("ca.substitute", "substitute") and len(c.args) == 3:
                        out.append({"store": t[5:], "symbols": norm(c.args[1]), "values": norm(c.args[2]), "node": n})
                    elif cn == "self._substitute_delay_arguments" and len(c.args) == 3:
                        out.append({"store": t[5:], "symbols": norm(c.args[1]), "values": norm(c.args[2]), "node": n})
            if isinstance(n, ast.Call) and call_name(n) == "self._substitute_metadata" and len(n.args) == 2:
                out.append({"store": "metadata", "symbols": norm(n.args[0]), "values": norm(n.args[1]), "node": n})
    return out


def passes(ctx: Context, rule: str):
    """[(pass name, site, substitutions)] for every block that substitutes self.equations."""
    fn = simplify_fn(ctx, rule)
    res = []
    for name, blk in option_blocks(fn).items():
        subs = substitutions(blk.body)
        if any(s["store"] == "equations" for s in subs):
            res.append((name, MODEL + ":Model._simplify_once", subs))
    ev = ctx.func(MODEL, "Model._expand_vectors", rule)
    subs = substitutions(ev.body)
    if any(s["store"] == "equations" for s in subs):
        res.append(("_expand_vectors", MODEL + ":Model._expand_vectors", subs))
    if len(res) < 5:
        raise AnalysisError(rule, "fewer than 5 substitution passes found in model.py")
    return res


CATS = ("states", "der_states", "alg_states", "inputs", "parameters", "constants")


def simplify_roles(fn) -> Dict[str, str]:
    """local name -> canonical role name in Model._simplify_once, discovered from what each local is built from:
    per-category name tables (`X = OrderedDict(<comprehension or zip over self.<cat>>)` -> <cat>), the merged name universe
    (-> all_states), the protected set (-> do_not_eliminate), the rebuilt equation list (-> reduced_equations), the loop
    variable over self.equations (-> eq), the snapshot of the alias relation (-> old_alias_relation) and the loop variables
    over the relation (-> canonical, aliases, alias)."""
    roles: Dict[str, str] = {}

    def cat_of(value):
        if isinstance(value, ast.Call) and (call_name(value) or "").split(".")[-1] in ("OrderedDict", "dict") and value.args:
            a = value.args[0]
            cats = set()
            for x in ast.walk(a):
                if isinstance(x, ast.Attribute) and isinstance(x.value, ast.Name) and x.value.id == "self" and x.attr in CATS:
                    cats.add(x.attr)
            if isinstance(a, (ast.ListComp, ast.GeneratorExp, ast.DictComp)) and len(cats) == 1:
                return cats.pop()
            if isinstance(a, ast.Call) and (call_name(a) or "") == "zip" and len(a.args) == 2:
                v = a.args[1]
                if isinstance(v, ast.Attribute) and isinstance(v.value, ast.Name) and v.value.id == "self" and v.attr in CATS:
                    return v.attr
            if len(cats) > 1:
                return "all_states"
        return None

    for n in ast.walk(fn):
        if isinstance(n, ast.Assign) and len(n.targets) == 1 and isinstance(n.targets[0], ast.Name):
            t, v = n.targets[0].id, n.value
            c = cat_of(v)
            if c:
                roles.setdefault(t, c)
            elif isinstance(v, ast.Call) and norm(v) == "self.alias_relation.copy()":
                roles.setdefault(t, "old_alias_relation")
    tables = {k for k, v in roles.items() if v in CATS}
    for n in ast.walk(fn):
        if isinstance(n, ast.Call) and isinstance(n.func, ast.Attribute) and n.func.attr == "update" and isinstance(n.func.value, ast.Name) \
                and n.args and isinstance(n.args[0], ast.Name) and n.args[0].id in tables:
            roles.setdefault(n.func.value.id, "all_states")
        if isinstance(n, ast.Assign) and len(n.targets) == 1 and isinstance(n.targets[0], ast.Name) and isinstance(n.value, ast.Call) \
                and (call_name(n.value) or "") == "set" and sum(1 for x in ast.walk(n.value) if isinstance(x, ast.Name) and x.id in tables) >= 3:
            roles.setdefault(n.targets[0].id, "do_not_eliminate")
        if isinstance(n, ast.For) and norm(n.iter) == "self.equations" and isinstance(n.target, ast.Name):
            roles.setdefault(n.target.id, "eq")
            for c in ast.walk(n):
                if isinstance(c, ast.Call) and isinstance(c.func, ast.Attribute) and c.func.attr == "append" and isinstance(c.func.value, ast.Name) \
                        and c.args and isinstance(c.args[0], ast.Name) and c.args[0].id == n.target.id:
                    roles.setdefault(c.func.value.id, "reduced_equations")
        if isinstance(n, ast.For) and norm(n.iter) == "self.alias_relation" and isinstance(n.target, ast.Tuple) and len(n.target.elts) == 2 \
                and all(isinstance(e, ast.Name) for e in n.target.elts):
            roles.setdefault(n.target.elts[0].id, "canonical")
            roles.setdefault(n.target.elts[1].id, "aliases")
            for lp in ast.walk(n):
                if isinstance(lp, ast.For) and isinstance(lp.iter, ast.Name) and lp.iter.id == n.target.elts[1].id and isinstance(lp.target, ast.Name):
                    roles.setdefault(lp.target.id, "alias")
                    # the sign of the alias: the local that gets -1 / 1 under the test on the leading '-' of the alias name
                    for t in ast.walk(lp):
                        if isinstance(t, ast.If) and isinstance(t.test, ast.Compare) and isinstance(t.test.left, ast.Subscript) \
                                and isinstance(t.test.left.value, ast.Name) and t.test.left.value.id == lp.target.id:
                            for st in t.body + t.orelse:
                                if isinstance(st, ast.Assign) and isinstance(st.targets[0], ast.Name) and isinstance(st.value, (ast.Constant, ast.UnaryOp)) \
                                        and norm(st.value) in ("1", "-1"):
                                    roles.setdefault(st.targets[0].id, "sign")
    return {k: v for k, v in roles.items() if k != v}


def simplify_fn(ctx: Context, rule: str):
    """Model._simplify_once with its role-carrying locals renamed to canonical names (cached per context)"""
    from ..pyutil import renamed_copy
    key = "simplify_fn"
    if key not in ctx.cache:
        fn = ctx.func(MODEL, "Model._simplify_once", rule)
        ctx.cache[key] = renamed_copy(fn, simplify_roles(fn))
    return ctx.cache[key]
