"""Shared facts about Model._simplify_once / _expand_vectors (used by C15, C18, C22)."""
from __future__ import annotations

import ast
from typing import Dict, List

from ..engine import AnalysisError, Context, norm
from ..pyutil import call_name, calls, subscript_key, walk_local

MODEL = "src/pymoca/backends/casadi/model.py"

STORES = ("equations", "initial_equations", "delay_arguments")
META_PASSES = {"replace_parameter_expressions", "replace_constant_expressions", "replace_parameter_values",
               "replace_constant_values", "_expand_vectors"}


def option_blocks(fn) -> Dict[str, ast.If]:
    """top-level `if options["X"] ...:` blocks of _simplify_once keyed by their first option name
    (a second block for the same option gets a #n suffix)."""
    out = {}
    for st in fn.body:
        if isinstance(st, ast.If):
            keys = [subscript_key(x) for x in ast.walk(st.test) if isinstance(x, ast.Subscript) and subscript_key(x)]
            if keys:
                k = keys[0]
                if len(keys) > 1:
                    k = "+".join(keys)
                n = 1
                base = k
                while k in out:
                    n += 1
                    k = "%s#%d" % (base, n)
                out[k] = st
    return out


def substitutions(block_stmts) -> List[dict]:
    """Every substitution of one expression store inside the given statements:
    {store, symbols, values, node}."""
    out = []
    for st in block_stmts:
        for n in ast.walk(st):
            if isinstance(n, ast.Assign) and len(n.targets) == 1 and isinstance(n.value, ast.Call):
                t = norm(n.targets[0])
                c = n.value
                cn = call_name(c) or ""
                if t.startswith("self.") and t[5:] in STORES and c.args and norm(c.args[0]) == t:
                    if cn in ("ca.substitute", "substitute") and len(c.args) == 3:
                        out.append({"store": t[5:], "symbols": norm(c.args[1]), "values": norm(c.args[2]), "node": n})
                    elif cn == "self._substitute_delay_arguments" and len(c.args) == 3:
                        out.append({"store": t[5:], "symbols": norm(c.args[1]), "values": norm(c.args[2]), "node": n})
            if isinstance(n, ast.Call) and call_name(n) == "self._substitute_metadata" and len(n.args) == 2:
                out.append({"store": "metadata", "symbols": norm(n.args[0]), "values": norm(n.args[1]), "node": n})
    return out


def passes(ctx: Context, rule: str):
    """[(pass name, site, substitutions)] for every block that substitutes self.equations."""
    fn = ctx.func(MODEL, "Model._simplify_once", rule)
    res = []
    for name, blk in option_blocks(fn).items():
        subs = substitutions(blk.body)
        if any(s["store"] == "equations" for s in subs):
            res.append((name, MODEL + ":Model._simplify_once", subs))
    ev = ctx.func(MODEL, "Model._expand_vectors", rule)
    subs = substitutions(ev.body)
    if any(s["store"] == "equations" for s in subs):
        res.append(("_expand_vectors", MODEL + ":Model._expand_vectors", subs))
    if len(res) < 5:
        raise AnalysisError(rule, "fewer than 5 substitution passes found in model.py")
    return res
