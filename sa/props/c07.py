"""C07 — hierarchical flattening instantiates every component once (coverage clauses)."""
from __future__ import annotations

import ast

from ..cfg import CFG
from ..engine import AnalysisError, MechanismMissing, PropertySpec, norm
from ..pyutil import call_name, calls, dotted, is_name, literal, walk_local
from ._listener import listener_symmetry

TREE = "src/pymoca/tree.py"

SPEC = PropertySpec(
    "C07",
    "Hierarchical flattening instantiates every component once",
    decided=(
        "nothing an instance declares is dropped on the way to the flat class and the renaming pass sees all of it: "
        "every section field is merged from every base class, from the class itself and from every flattened "
        "sub-component (sibling agreement over the field lists); every equation/statement section passes through "
        "function scoping and reference renaming into the same-named flat section; leaf symbols are registered under "
        "their prefixed name; input/output are stripped only below the top level; listener counters are symmetric."
    ),
    not_decided="that each reference is renamed to the right flat name (lookup semantics); uniqueness of leaf names.",
)

S_FIELDS = ["equations", "initial_equations", "statements", "initial_statements"]
T_FIELDS = S_FIELDS + ["symbols", "classes", "functions"]


def _merges(fn, target: str):
    """{(src var, field on src): field on target} for `target.f.update(src.g)`, `target.f += src.g`, `.extend(src.g)`."""
    out = {}
    for n in walk_local(fn):
        tf = sv = sf = None
        if isinstance(n, ast.AugAssign) and isinstance(n.op, ast.Add) and isinstance(n.target, ast.Attribute) and is_name(n.target.value, target):
            tf = n.target.attr
            v = n.value
            if isinstance(v, ast.Attribute) and isinstance(v.value, ast.Name):
                sv, sf = v.value.id, v.attr
        elif isinstance(n, ast.Call) and isinstance(n.func, ast.Attribute) and n.func.attr in ("update", "extend") \
                and isinstance(n.func.value, ast.Attribute) and is_name(n.func.value.value, target) and n.args:
            tf = n.func.value.attr
            v = n.args[0]
            if isinstance(v, ast.Attribute) and isinstance(v.value, ast.Name):
                sv, sf = v.value.id, v.attr
        if tf and sv:
            out[(sv, sf)] = tf
    return out


def _prefix_vars(fn):
    """the instance-name parameter of flatten_symbols and the locals computed from it (the instance prefix)"""
    name_param = fn.args.args[1].arg
    out = {name_param}
    for n in walk_local(fn):
        if isinstance(n, ast.Assign) and isinstance(n.targets[0], ast.Name) and any(is_name(x, name_param) for x in ast.walk(n.value)):
            out.add(n.targets[0].id)
    return out


def _prefix_polarity(test, pv) -> int:
    """+1 if `test` being true means "the instance prefix is non-empty" (`p`, `p != ""`), -1 if it means "empty"
    (`not p`, `p == ""`), 0 if the test is about something else"""
    if isinstance(test, ast.UnaryOp) and isinstance(test.op, ast.Not):
        return -_prefix_polarity(test.operand, pv)
    if isinstance(test, ast.Name):
        return 1 if test.id in pv else 0
    if isinstance(test, ast.Compare) and len(test.ops) == 1 and isinstance(test.ops[0], (ast.NotEq, ast.Eq)) and isinstance(test.left, ast.Name) \
            and test.left.id in pv and isinstance(test.comparators[0], ast.Constant) and test.comparators[0].value == "":
        return 1 if isinstance(test.ops[0], ast.NotEq) else -1
    return 0


def _nonempty_assume(x, pv) -> bool:
    """CFG assume node on whose outgoing side the instance prefix is known to be non-empty"""
    pol = _prefix_polarity(x.ast, pv) if x.kind == "assume" else 0
    return pol != 0 and (pol == 1) == bool(x.taken)


def _empty_assume(x, pv) -> bool:
    pol = _prefix_polarity(x.ast, pv) if x.kind == "assume" else 0
    return pol != 0 and (pol == 1) != bool(x.taken)


def _alloc_var(fn, clsname):
    for n in walk_local(fn):
        if isinstance(n, ast.Assign) and isinstance(n.value, ast.Call) and (call_name(n.value) or "").endswith(clsname) \
                and isinstance(n.targets[0], ast.Name):
            return n.targets[0].id
    return None


@SPEC.rule(
    "R07.1",
    "section coverage (sibling agreement): flatten_extends merges {equations, initial_equations, statements, "
    "initial_statements, symbols, classes, functions} from every base class and from the class itself (plus its "
    "imports); flatten_symbols merges the same seven fields from every flattened sub-component; every section of "
    "the class being flattened goes through fully_scope_function_calls and flatten_component_refs into the "
    "same-named section of the flat class",
)
def r07_1(ctx, rep):
    R = "R07.1"
    fn = ctx.func(TREE, "flatten_extends", R)
    site = TREE + ":flatten_extends"
    tgt = _alloc_var(fn, "InstanceClass")
    if tgt is None:
        raise MechanismMissing(R, "InstanceClass allocation not found in flatten_extends")
    m = _merges(fn, tgt)
    own = fn.args.args[0].arg
    base = None
    for n in walk_local(fn):
        if isinstance(n, ast.For) and norm(n.iter) == own + ".extends":
            for st in ast.walk(n):
                if isinstance(st, ast.Assign) and isinstance(st.value, ast.Call) and is_name(st.value.func, "flatten_extends") \
                        and isinstance(st.targets[0], ast.Name):
                    base = st.targets[0].id
    if base is None:
        raise MechanismMissing(R, "recursive flatten_extends call over %s.extends not found" % own)
    for f in T_FIELDS:
        rep.ob(R, site, "base.%s" % f, m.get((base, f)) == f,
               "every base class's `%s` must be merged into the instance class's `%s` (found target %r)" % (f, f, m.get((base, f))))
    for f in T_FIELDS + ["imports"]:
        rep.ob(R, site, "own.%s" % f, m.get((own, f)) == f,
               "the class's own `%s` must be merged into the instance class's `%s` (found target %r)" % (f, f, m.get((own, f))))
    # order: bases before own (own declarations override inherited ones)
    order_ok = True
    stmts = [n for n in walk_local(fn) if isinstance(n, (ast.For, ast.Expr, ast.AugAssign))]
    loop = [n for n in fn.body if isinstance(n, ast.For) and norm(n.iter) == own + ".extends"]
    if loop:
        li = fn.body.index(loop[0])
        for i, st in enumerate(fn.body):
            if i < li and (own + ".symbols") in norm(st) and tgt + ".symbols" in norm(st):
                order_ok = False
    rep.ob(R, site, "bases before own", order_ok and bool(loop), "inherited symbols must be merged before the class's own (own declarations win)")

    fn = ctx.func(TREE, "flatten_symbols", R)
    site = TREE + ":flatten_symbols"
    flat = _alloc_var(fn, "Class")
    if flat is None:
        raise MechanismMissing(R, "flat Class allocation not found in flatten_symbols")
    sub = None
    for n in walk_local(fn):
        if isinstance(n, ast.Assign) and isinstance(n.value, ast.Call) and is_name(n.value.func, "flatten_symbols") and isinstance(n.targets[0], ast.Name):
            sub = n.targets[0].id
    if sub is None:
        raise MechanismMissing(R, "recursive flatten_symbols call not found")
    m = _merges(fn, flat)
    for f in T_FIELDS:
        rep.ob(R, site, "sub.%s" % f, m.get((sub, f)) == f,
               "a flattened sub-component's `%s` must be merged into the flat class's `%s` (found target %r)" % (f, f, m.get((sub, f))))
    # (iii) pipeline of the class's own sections
    cls_param = fn.args.args[0].arg
    pv = _prefix_vars(fn)
    prefix_var = "/".join(sorted(pv))
    tag = {}
    sinks = {}

    def scoped(call, elemvar):
        return isinstance(call, ast.Call) and is_name(call.func, "fully_scope_function_calls") and len(call.args) >= 2 \
            and is_name(call.args[0], cls_param) and is_name(call.args[1], elemvar)

    def renamed(call, elemvar):
        return isinstance(call, ast.Call) and is_name(call.func, "flatten_component_refs") and len(call.args) >= 3 \
            and is_name(call.args[0], flat) and is_name(call.args[1], elemvar) and isinstance(call.args[2], ast.Name) and call.args[2].id in pv

    def visit(stmts):
        for st in stmts:
            if isinstance(st, ast.For) and isinstance(st.target, ast.Name) and isinstance(st.iter, ast.Attribute) and is_name(st.iter.value, cls_param):
                tag[st.target.id] = (st.iter.attr, 0)
                visit(st.body)
                continue
            if isinstance(st, ast.Assign) and len(st.targets) == 1 and isinstance(st.targets[0], ast.Name):
                v = st.value
                t = st.targets[0].id
                if isinstance(v, ast.Call) and v.args and len(v.args) >= 2 and isinstance(v.args[1], ast.Name) and v.args[1].id in tag:
                    src = tag[v.args[1].id]
                    if src[1] == 0 and scoped(v, v.args[1].id):
                        tag[t] = (src[0], 1)
                    elif src[1] == 1 and renamed(v, v.args[1].id):
                        tag[t] = (src[0], 2)
                elif isinstance(v, ast.Call) and len(v.args) >= 3 and isinstance(v.args[1], ast.Call) and len(v.args[1].args) >= 2 \
                        and isinstance(v.args[1].args[1], ast.Name) and v.args[1].args[1].id in tag and tag[v.args[1].args[1].id][1] == 0:
                    # both stages in one expression: flatten_component_refs(flat, fully_scope_function_calls(cls, e, ..), prefix)
                    e0 = v.args[1].args[1].id
                    outer = ast.Call(func=v.func, args=[v.args[0], ast.Name(id=e0, ctx=ast.Load()), v.args[2]], keywords=[])
                    if scoped(v.args[1], e0) and renamed(outer, e0):
                        tag[t] = (tag[e0][0], 2)
                elif isinstance(v, ast.ListComp) and len(v.generators) == 1 and not v.generators[0].ifs and isinstance(v.generators[0].target, ast.Name):
                    g = v.generators[0]
                    e = g.target.id
                    if isinstance(g.iter, ast.Attribute) and is_name(g.iter.value, cls_param) and scoped(v.elt, e):
                        tag[t] = (g.iter.attr, 1, "list")
            tgt_field, val = None, None
            if isinstance(st, ast.AugAssign) and isinstance(st.target, ast.Attribute) and is_name(st.target.value, flat):
                tgt_field, val = st.target.attr, st.value
            elif isinstance(st, ast.Expr) and isinstance(st.value, ast.Call) and isinstance(st.value.func, ast.Attribute) \
                    and st.value.func.attr in ("append", "extend") and isinstance(st.value.func.value, ast.Attribute) \
                    and is_name(st.value.func.value.value, flat) and st.value.args:
                tgt_field, val = st.value.func.value.attr, st.value.args[0]
            if tgt_field:
                if isinstance(val, ast.Name) and tag.get(val.id, (None, -1))[1] == 2:
                    sinks[tag[val.id][0]] = tgt_field
                elif isinstance(val, ast.ListComp) and len(val.generators) == 1 and not val.generators[0].ifs:
                    g = val.generators[0]
                    if isinstance(g.iter, ast.Name) and tag.get(g.iter.id, (None, -1))[1:] == (1, "list") and isinstance(g.target, ast.Name) \
                            and renamed(val.elt, g.target.id):
                        sinks[tag[g.iter.id][0]] = tgt_field
            for sub_ in ("body", "orelse"):
                b = getattr(st, sub_, None)
                if isinstance(b, list) and not isinstance(st, ast.For):
                    visit(b)

    visit(fn.body)
    for f in S_FIELDS:
        rep.ob(R, site, "pipeline.%s" % f, sinks.get(f) == f,
               "each element of %s.%s must pass fully_scope_function_calls(%s, e, …) and flatten_component_refs(%s, e, %s) "
               "and land in %s.%s (found: %r)" % (cls_param, f, cls_param, flat, prefix_var, flat, f, sinks.get(f)))


def _strip_sites(cfg, fn):
    """CFG nodes that remove keywords from <sym>.prefixes, with the keywords they remove:
    `sym.prefixes.remove(kw)` (kw a literal or a loop variable over a literal list) or
    `sym.prefixes = [p for p in sym.prefixes if p not in <literal>]`."""
    out = []
    for node in cfg.stmts():
        a = node.ast
        if isinstance(a, (ast.FunctionDef, ast.ClassDef)):
            continue
        for c in calls(a):
            if isinstance(c.func, ast.Attribute) and c.func.attr == "remove" and isinstance(c.func.value, ast.Attribute) and c.func.value.attr == "prefixes":
                arg = c.args[0] if c.args else None
                kws = None
                if isinstance(arg, ast.Name):
                    for loop in walk_local(fn):
                        if isinstance(loop, ast.For) and is_name(loop.target, arg.id):
                            it = loop.iter
                            if isinstance(it, ast.Name):
                                for x in walk_local(fn):
                                    if isinstance(x, ast.Assign) and is_name(x.targets[0], it.id):
                                        kws = literal(x.value)
                            else:
                                kws = literal(it)
                elif arg is not None:
                    kws = [literal(arg)]
                out.append((node, norm(c.func.value.value), kws, norm(c)))
        if isinstance(a, ast.Assign) and isinstance(a.targets[0], ast.Attribute) and a.targets[0].attr == "prefixes" and isinstance(a.value, ast.ListComp):
            g = a.value.generators[0]
            if norm(g.iter) == norm(a.targets[0]) and len(g.ifs) == 1 and isinstance(g.ifs[0], ast.Compare) and isinstance(g.ifs[0].ops[0], ast.NotIn):
                out.append((node, norm(a.targets[0].value), literal(g.ifs[0].comparators[0]), norm(a)))
    return out


@SPEC.rule(
    "R07.2",
    "I/O stripping only below top level: every registration of a leaf symbol in the flat class is preceded, whenever "
    "the instance prefix is non-empty, by the removal of exactly 'input' and 'output' from that symbol's prefixes; the "
    "removal itself is guarded by the non-empty prefix",
)
def r07_2(ctx, rep):
    io_stripping(ctx, rep, "R07.2")


def io_stripping(ctx, rep, R):
    fn = ctx.func(TREE, "flatten_symbols", R)
    cfg = CFG(fn, R)
    site = TREE + ":flatten_symbols"
    sites = _strip_sites(cfg, fn)
    if not sites:
        raise MechanismMissing(R, "no statement removing keywords from <symbol>.prefixes found in flatten_symbols")
    pv = _prefix_vars(fn)
    for node, owner, kws, text in sites:
        guards = cfg.dominated_by(node.id, lambda x: _nonempty_assume(x, pv))
        rep.ob(R, site, "guard of " + text[:60], bool(guards),
               "prefix stripping must be dominated by the test that the instance prefix is non-empty (top-level inputs/outputs keep their prefix)")
    kws_all = sorted({k for _n, _o, kws, _t in sites for k in (kws or ["?"])})
    rep.ob(R, site, "keywords stripped", kws_all == ["input", "output"],
           "exactly 'input' and 'output' are stripped from nested symbols (parameter/constant/discrete/flow survive); found %s" % (kws_all,))
    # every leaf registration is reached only through a strip site (when the prefix is non-empty)
    regs = [x for x in cfg.stmts() if isinstance(x.ast, ast.Assign) and isinstance(x.ast.targets[0], ast.Subscript)
            and norm(x.ast.targets[0].value).endswith(".symbols") and isinstance(x.ast.value, ast.Name)
            and isinstance(x.ast.targets[0].slice, ast.Attribute) and x.ast.targets[0].slice.attr == "name"]
    loops = [x for x in cfg.nodes if x.kind == "iter" and norm(x.ast.iter).endswith(".symbols.items()")]
    if not regs or not loops:
        raise MechanismMissing(R, "leaf registrations (flat_class.symbols[sym.name] = sym) or the symbol loop not found")
    it = loops[0]
    entry = [s_ for s_ in cfg.succ[it.id] if cfg.nodes[s_].kind == "assume" and cfg.nodes[s_].taken][0]
    avoid = {n.id for n, _o, _k, _t in sites}
    # a removal inside `for kw in <non-empty literal list>` always runs: passing the loop header counts
    for n, _o, _k, _t in sites:
        p_ = getattr(n.ast, "_parent", None)
        while p_ is not None and p_ is not fn:
            if isinstance(p_, ast.For):
                lit = literal(p_.iter)
                if lit is None and isinstance(p_.iter, ast.Name):
                    for x in walk_local(fn):
                        if isinstance(x, ast.Assign) and is_name(x.targets[0], p_.iter.id):
                            lit = literal(x.value)
                if isinstance(lit, (list, tuple)) and len(lit) > 0:
                    avoid |= {x.id for x in cfg.nodes if x.kind == "iter" and x.ast is p_}
                break
            p_ = getattr(p_, "_parent", None)
    # with an empty prefix nothing needs stripping: those branches are not obligations
    avoid |= {x.id for x in cfg.nodes if _empty_assume(x, pv)}
    for k, r in enumerate(regs, 1):
        if r.id not in cfg.reachable(entry):
            continue
        w = cfg.path(entry, r.id, avoid=avoid - {r.id})
        rep.ob(R, site, "leaf registration #%d %s" % (k, norm(r.ast)[:50]), w is None,
               "a nested leaf symbol is stored in the flat class on a path that never strips input/output from its prefixes: "
               "the nested variable is reported as a model input/output", path=cfg.describe(w) if w else "")


@SPEC.rule(
    "R07.3",
    "name composition: a nested symbol's flat name is <instance prefix> + <its key>, the prefix is the parent's flat "
    "name + CLASS_SEPARATOR ('.'), the recursion passes the already-prefixed name, and every elementary leaf is "
    "registered in the flat class under that name",
)
def r07_3(ctx, rep):
    R = "R07.3"
    fn = ctx.func(TREE, "flatten_symbols", R)
    site = TREE + ":flatten_symbols"
    sep = ctx.module_assign(TREE, "CLASS_SEPARATOR", R)
    rep.ob(R, TREE + ":CLASS_SEPARATOR", "CLASS_SEPARATOR", literal(sep) == ".", "instance paths are dotted")
    name_param = fn.args.args[1].arg
    pref_ok = False
    pvar = None
    for n in walk_local(fn):
        pol = _prefix_polarity(n.test, {name_param}) if isinstance(n, ast.If) else 0
        if pol:
            nonempty, empty = (n.body, n.orelse) if pol == 1 else (n.orelse, n.body)
            b = {s.targets[0].id: norm(s.value) for s in nonempty if isinstance(s, ast.Assign) and isinstance(s.targets[0], ast.Name)}
            e = {s.targets[0].id: norm(s.value) for s in empty if isinstance(s, ast.Assign) and isinstance(s.targets[0], ast.Name)}
            for v in b:
                if b[v] == "%s + CLASS_SEPARATOR" % name_param and e.get(v) in (name_param, "''"):
                    pref_ok, pvar = True, v
    rep.ob(R, site, "instance_prefix", pref_ok, "instance_prefix must be <instance name> + CLASS_SEPARATOR, or empty at top level")
    loop = None
    for n in walk_local(fn):
        if isinstance(n, ast.For) and norm(n.iter) == fn.args.args[0].arg + ".symbols.items()":
            loop = n
            break
    if loop is None:
        raise MechanismMissing(R, "loop over class_.symbols.items() not found")
    kvar, svar = loop.target.elts[0].id, loop.target.elts[1].id
    body = [norm(s) for s in loop.body]
    rep.ob(R, site, "flat name", "%s.name = %s + %s" % (svar, pvar, kvar) in body,
           "the symbol's flat name must be instance_prefix + its key in the class's symbol table")
    alias = {svar}
    for s in loop.body:
        if isinstance(s, ast.Assign) and isinstance(s.value, ast.Name) and s.value.id in alias and isinstance(s.targets[0], ast.Name):
            alias.add(s.targets[0].id)
    rec = [c for c in calls(loop) if is_name(c.func, "flatten_symbols")]
    ok = bool(rec) and all(len(c.args) == 2 and isinstance(c.args[1], ast.Attribute) and c.args[1].attr == "name"
                           and isinstance(c.args[1].value, ast.Name) and c.args[1].value.id in alias
                           and norm(c.args[0]) == svar + ".type" for c in rec)
    rep.ob(R, site, "recursion passes prefixed name", ok, "flatten_symbols(sym.type, <flat name of sym>) — the sub-instance is named by its full path")
    # leaf registration
    regs = [s for s in ast.walk(loop) if isinstance(s, ast.Assign) and isinstance(s.targets[0], ast.Subscript)
            and norm(s.targets[0].value).endswith(".symbols") and isinstance(s.value, ast.Name) and s.value.id in alias]
    keys_ok = all(isinstance(s.targets[0].slice, ast.Attribute) and s.targets[0].slice.attr == "name"
                  and isinstance(s.targets[0].slice.value, ast.Name) and s.targets[0].slice.value.id in alias for s in regs)
    rep.ob(R, site, "leaf registration", len(regs) >= 2 and keys_ok,
           "elementary symbols (ComponentRef type and builtin-derived types) must be stored in flat_class.symbols under their flat name (found %d stores)" % len(regs))
    # reference renaming composes the same way
    fn2 = ctx.func(TREE, "ComponentRefFlattener.enterComponentRef", R)
    tparam = fn2.args.args[1].arg
    nvar = None
    for s in walk_local(fn2):
        if isinstance(s, ast.Assign) and isinstance(s.targets[0], ast.Name) and norm(s.value) == "self.instance_prefix + %s.name" % tparam:
            nvar = s.targets[0].id
    ok = nvar is not None and any(
        isinstance(s, ast.AugAssign) and is_name(s.target, nvar) and isinstance(s.op, ast.Add) and isinstance(s.value, ast.BinOp) and isinstance(s.value.op, ast.Add)
        and is_name(s.value.left, "CLASS_SEPARATOR") and isinstance(s.value.right, ast.Attribute) and s.value.right.attr == "name" for s in walk_local(fn2))
    rep.ob(R, TREE + ":ComponentRefFlattener.enterComponentRef", "reference name", ok,
           "a reference a.b.c inside instance p must be looked up as p.a.b.c (prefix + names joined by CLASS_SEPARATOR)")


@SPEC.rule("R07.4", "listener counter symmetry: depth / inside_modification of ComponentRefFlattener, depth and the class stacks of ConstantReferenceApplier")
def r07_4(ctx, rep):
    n = listener_symmetry(ctx, rep, "R07.4", TREE, "ComponentRefFlattener")
    n += listener_symmetry(ctx, rep, "R07.4", TREE, "ConstantReferenceApplier")
    if n < 5:
        raise MechanismMissing("R07.4", "expected >=5 enter/exit state pairs, found %d" % n)


@SPEC.rule(
    "R07.5",
    "pipeline: flatten_class runs build_instance_tree, then apply_constant_references, then flatten_symbols on the same "
    "instance tree; flatten runs flatten_class, expand_connectors, add_state_value_equations and annotate_states on the "
    "flat class on every path before returning",
)
def r07_5(ctx, rep):
    R = "R07.5"
    for fname, stages in (("flatten_class", ["build_instance_tree", "apply_constant_references", "flatten_symbols"]),
                          ("flatten", ["flatten_class", "expand_connectors", "add_state_value_equations", "annotate_states"])):
        fn = ctx.func(TREE, fname, R)
        cfg = CFG(fn, R)
        pos = {}
        for st in stages:
            nodes = [x for x in cfg.stmts() if any(is_name(c.func, st) for c in calls(x.ast))]
            ok = bool(nodes) and cfg.must_pass(cfg.entry, cfg.exit, {x.id for x in nodes}) is None
            rep.ob(R, TREE + ":" + fname, "stage " + st, ok, "every path through %s must call %s" % (fname, st))
            if nodes:
                pos[st] = nodes[0].id
        order_ok = all(a in pos and b in pos and pos[a] in cfg.dominators()[pos[b]] for a, b in zip(stages, stages[1:]))
        rep.ob(R, TREE + ":" + fname, "stage order", order_ok, "stages must run in the order %s" % " -> ".join(stages))


@SPEC.rule(
    "R07.6",
    "flatten_extends is idempotent on its own result: the InstanceClass it returns carries no extends clauses (it is "
    "created without `extends=` and `.extends` is never assigned) — build_instance_tree passes InstanceClasses through "
    "flatten_extends again, and a kept extends list would merge the base classes' equations a second time",
)
def r07_6(ctx, rep):
    R = "R07.6"
    fn = ctx.func(TREE, "flatten_extends", R)
    tgt = _alloc_var(fn, "InstanceClass")
    if tgt is None:
        raise MechanismMissing(R, "InstanceClass allocation not found in flatten_extends")
    kw = []
    for n in walk_local(fn):
        if isinstance(n, ast.Assign) and isinstance(n.value, ast.Call) and (call_name(n.value) or "").endswith("InstanceClass"):
            kw = [k.arg for k in n.value.keywords]
    assigned = [norm(n) for n in walk_local(fn) if (isinstance(n, (ast.Assign, ast.AugAssign)) and any(norm(t) == tgt + ".extends" for t in (n.targets if isinstance(n, ast.Assign) else [n.target])))
                or (isinstance(n, ast.Call) and norm(n.func).startswith(tgt + ".extends."))]
    rep.ob(R, TREE + ":flatten_extends", "result has no extends", "extends" not in kw and not assigned,
           "the flattened instance class keeps extends clauses (%s): when it is flattened again (nested class used as a component type) "
           "the inherited equations are added twice" % (["extends= keyword"] * ("extends" in kw) + assigned))
    # and a re-run on an InstanceClass must not lose its environment
    keep = any(isinstance(n, ast.If) and "isinstance(%s, ast.InstanceClass)" % fn.args.args[0].arg in norm(n.test)
               and any(norm(s_).startswith(tgt + ".modification_environment =") for s_ in n.body) for n in walk_local(fn))
    rep.ob(R, TREE + ":flatten_extends", "instance environment kept", keep, "an InstanceClass passed in keeps its modification_environment")


# -- R07.7: the skip region of ComponentRefFlattener ---------------------------------------------------------------------
_BIG = 10 ** 9


def _ieval(e, env):
    """evaluate an integer/boolean expression over `self.<attr>` names (env: attr -> int); None when something else occurs"""
    if isinstance(e, ast.Constant) and isinstance(e.value, (int, bool)):
        return e.value
    if isinstance(e, ast.Attribute) and isinstance(e.value, ast.Name) and e.value.id == "self" and e.attr in env:
        return env[e.attr]
    if norm(e) in ("sys.maxsize", "math.inf", "float('inf')", 'float("inf")'):
        return _BIG
    if isinstance(e, ast.UnaryOp):
        v = _ieval(e.operand, env)
        if v is None:
            return None
        return (not v) if isinstance(e.op, ast.Not) else (-v if isinstance(e.op, ast.USub) else None)
    if isinstance(e, ast.BinOp) and isinstance(e.op, (ast.Add, ast.Sub)):
        a, b = _ieval(e.left, env), _ieval(e.right, env)
        if a is None or b is None:
            return None
        return a + b if isinstance(e.op, ast.Add) else a - b
    if isinstance(e, ast.BoolOp):
        vs = [_ieval(v, env) for v in e.values]
        if any(v is None for v in vs):
            return None
        return all(vs) if isinstance(e.op, ast.And) else any(vs)
    if isinstance(e, ast.Compare):
        vals = [_ieval(x, env) for x in [e.left] + e.comparators]
        if any(v is None for v in vals):
            return None
        import operator as _o
        ops = {ast.Lt: _o.lt, ast.LtE: _o.le, ast.Gt: _o.gt, ast.GtE: _o.ge, ast.Eq: _o.eq, ast.NotEq: _o.ne}
        ok = True
        for op, a, b in zip(e.ops, vals, vals[1:]):
            f = ops.get(type(op))
            if f is None:
                return None
            ok = ok and f(a, b)
        return ok
    return None


def _counter_offsets(fn, attr, R):
    """{id(stmt or test expr): offset of self.<attr> relative to its value at entry} for every statement of fn, path-sensitively;
    a statement reachable with two different offsets is an analysis error (the counter would not be a depth)"""
    from ..cfg import explore_facts
    cfg = CFG(fn, R)

    def tr(node, facts):
        k = dict(facts).get("k", 0)
        a = node.ast
        if node.kind == "stmt" and isinstance(a, ast.AugAssign) and norm(a.target) == "self." + attr and isinstance(a.value, ast.Constant):
            k += a.value.value if isinstance(a.op, ast.Add) else (-a.value.value if isinstance(a.op, ast.Sub) else 0)
        return frozenset({("k", k)})

    seen = explore_facts(cfg, tr, init=frozenset({("k", 0)}))
    out = {}
    for nid, fs in seen.items():
        node = cfg.nodes[nid]
        if node.ast is None or not fs:
            continue
        ks = {dict(f).get("k", 0) for f in fs}
        if len(ks) > 1:
            raise AnalysisError(R, "self.%s has two different offsets at `%s`" % (attr, node.text()[:60]))
        out[id(node.ast)] = ks.pop()
    return out


@SPEC.rule(
    "R07.7",
    "the region ComponentRefFlattener leaves untouched is exactly the subtree of the reference it could not resolve: with the skip "
    "test, the cutoff assignment (enterComponentRef) and the reset test (exitComponentRef) evaluated over the finite set of orderings "
    "of depth and cutoff — descendants of the unresolved reference are skipped, the reset fires when that reference is left and not "
    "when one of its descendants is left, and nothing is skipped once the cutoff is reset",
)
def r07_7(ctx, rep):
    R = "R07.7"
    ms = ctx.methods(TREE, "ComponentRefFlattener", R)
    ent, ext = ms.get("enterComponentRef"), ms.get("exitComponentRef")
    if ent is None or ext is None:
        raise MechanismMissing(R, "ComponentRefFlattener.enterComponentRef / exitComponentRef not found")
    # the two attributes: the counter (inc in enter, dec in exit) and the cutoff (assigned from the counter in enter)
    counter = next((n.target.attr for n in walk_local(ent) if isinstance(n, ast.AugAssign) and isinstance(n.op, ast.Add)
                    and isinstance(n.target, ast.Attribute) and norm(n.target.value) == "self"), None)
    if counter is None:
        raise MechanismMissing(R, "no depth counter incremented in enterComponentRef")
    cut_asg = [n for n in walk_local(ent) if isinstance(n, ast.Assign) and len(n.targets) == 1 and isinstance(n.targets[0], ast.Attribute)
               and norm(n.targets[0].value) == "self" and ("self." + counter) in norm(n.value)]
    if not cut_asg:
        raise MechanismMissing(R, "no cutoff assigned from self.%s in enterComponentRef" % counter)
    cutoff = cut_asg[0].targets[0].attr
    off_e, off_x = _counter_offsets(ent, counter, R), _counter_offsets(ext, counter, R)
    skips = [n for n in walk_local(ent) if isinstance(n, ast.If) and ("self." + cutoff) in norm(n.test) and any(isinstance(b, ast.Return) for b in n.body)]
    resets = [n for n in walk_local(ext) if isinstance(n, ast.If) and ("self." + cutoff) in norm(n.test)
              and any(isinstance(b, ast.Assign) and norm(b.targets[0]) == "self." + cutoff for b in n.body)]
    if len(skips) != 1 or len(resets) != 1:
        raise MechanismMissing(R, "expected one skip test in enterComponentRef and one reset test in exitComponentRef, found %d / %d" % (len(skips), len(resets)))
    skip, reset = skips[0], resets[0]
    reset_val = next(b.value for b in reset.body if isinstance(b, ast.Assign) and norm(b.targets[0]) == "self." + cutoff)
    site_e, site_x = TREE + ":ComponentRefFlattener.enterComponentRef", TREE + ":ComponentRefFlattener.exitComponentRef"

    def S(d, c):  # node at depth d entered while the cutoff is c: skipped?
        return _ieval(skip.test, {counter: (d - 1) + off_e.get(id(skip.test), 0), cutoff: c})

    def A(d):  # cutoff assigned when the node at depth d is not resolved
        return _ieval(cut_asg[0].value, {counter: (d - 1) + off_e.get(id(cut_asg[0]), 0), cutoff: _BIG})

    def Rs(d, c):  # node at depth d left while the cutoff is c: reset?
        return _ieval(reset.test, {counter: d + off_x.get(id(reset.test), 0), cutoff: c})

    idle = _ieval(reset_val, {counter: 0, cutoff: 0})
    probe = [S(2, 1), A(1), Rs(1, 1), idle]
    if any(v is None for v in probe):
        raise AnalysisError(R, "skip / cutoff / reset expressions are not integer comparisons of self.%s and self.%s any more" % (counter, cutoff))
    bad_desc, bad_self, bad_early, bad_idle = [], [], [], []
    for n in (1, 2, 3):
        c = A(n)
        for d in (n + 1, n + 2, n + 3):
            if not S(d, c):
                bad_desc.append("reference at depth %d unresolved (cutoff=%s): descendant at depth %d is not skipped" % (n, c, d))
            if Rs(d, c):
                bad_early.append("reference at depth %d unresolved: the reset fires when its descendant at depth %d is left" % (n, d))
        if not Rs(n, c):
            bad_self.append("reference at depth %d unresolved (cutoff=%s): the reset does not fire when it is left" % (n, c))
        for d in (1, 2, 3, 4, 5):
            if S(d, idle):
                bad_idle.append("cutoff idle (%s): reference at depth %d is skipped" % (idle, d))
    rep.ob(R, site_e, "descendants of an unresolved reference are skipped", not bad_desc, "; ".join(bad_desc[:3]))
    rep.ob(R, site_x, "the cutoff is reset when the unresolved reference is left", not bad_self,
           "; ".join(bad_self[:3]) + " — every reference walked afterwards (the rest of the equation, all later equations) is left unflattened")
    rep.ob(R, site_x, "the cutoff is not reset while still inside the unresolved reference", not bad_early,
           "; ".join(bad_early[:3]) + " — the remaining descendants (index expressions of an unresolved name) are flattened as if they were top-level names")
    rep.ob(R, site_e, "nothing is skipped while the cutoff is idle", not bad_idle, "; ".join(bad_idle[:3]))


@SPEC.rule(
    "R07.8",
    "array dimensions survive flattening: every assignment to <symbol>.dimensions in flatten_symbols keeps the symbol's own "
    "dimensions in the new value (the recursion prepends the component's dimensions to the member's), and the attributes copied "
    "over from a derived type's __value symbol do not include the dimensions — `Voltage v[3]` is still three elements afterwards",
)
def r07_8(ctx, rep):
    R = "R07.8"
    fn = ctx.func(TREE, "flatten_symbols", R)
    site = TREE + ":flatten_symbols"
    asg = [n for n in walk_local(fn) if isinstance(n, ast.Assign) and len(n.targets) == 1 and isinstance(n.targets[0], ast.Attribute)
           and n.targets[0].attr == "dimensions"]
    aliases = {}
    for n in walk_local(fn):
        if isinstance(n, ast.Assign) and len(n.targets) == 1 and isinstance(n.targets[0], ast.Name) and isinstance(n.value, ast.Name):
            aliases.setdefault(n.targets[0].id, set()).add(n.value.id)
            aliases.setdefault(n.value.id, set()).add(n.targets[0].id)
    n_checked = 0
    for a in asg:
        owner = norm(a.targets[0].value)
        names = {owner} | aliases.get(owner, set())
        reads = {norm(x.value) for x in ast.walk(a.value) if isinstance(x, ast.Attribute) and x.attr == "dimensions"}
        n_checked += 1
        rep.ob(R, site, "%s.dimensions keeps its own value (line %d)" % (owner, a.lineno), bool(reads & names),
               "`%s`: the new value is not built from %s.dimensions — the dimensions written on the declaration are replaced (by those of "
               "the type's value symbol, by nothing), so an array of a derived type becomes a scalar" % (norm(a)[:110], owner))
    # setattr(<symbol>, att, getattr(<__value symbol>, att)) loops: the attribute list must not contain "dimensions"
    sym_attrs = None
    for st in ctx.cls("src/pymoca/ast.py", "Symbol", R).body:
        if isinstance(st, ast.Assign) and norm(st.targets[0]) == "ATTRIBUTES":
            try:
                sym_attrs = list(ast.literal_eval(st.value))
            except ValueError:
                sym_attrs = [x.value for x in ast.walk(st.value) if isinstance(x, ast.Constant) and isinstance(x.value, str)]
    for loop in [n for n in walk_local(fn) if isinstance(n, ast.For)]:
        if not any(isinstance(c, ast.Call) and is_name(c.func, "setattr") for st in loop.body for c in ast.walk(st)):
            continue
        words = {x.value for x in ast.walk(loop.iter) if isinstance(x, ast.Constant) and isinstance(x.value, str)}
        if "ATTRIBUTES" in norm(loop.iter) and sym_attrs:
            words |= set(sym_attrs)
        n_checked += 1
        rep.ob(R, site, "attributes copied from the type's value symbol exclude the dimensions", "dimensions" not in words,
               "the setattr loop over %s copies `dimensions` from the type's __value symbol over the declaration's own" % norm(loop.iter)[:80])
    if n_checked < 1:
        raise MechanismMissing(R, "no dimension assignment / attribute copy loop found in flatten_symbols")


@SPEC.rule(
    "R07.9",
    "every extends clause contributes: each iteration of flatten_extends' loop over the extends clauses that does not raise passes "
    "the recursive flatten_extends of the base found and the merge of its symbols and equations — no `seen this base already` shortcut "
    "(two different bases may share a simple name: LibA.Base and LibB.Base) ends an iteration early",
)
def r07_9(ctx, rep):
    from ..cfg import iteration_skips
    R = "R07.9"
    fn = ctx.func(TREE, "flatten_extends", R)
    site = TREE + ":flatten_extends"
    loops = [lp for lp in fn.body if isinstance(lp, ast.For) and norm(lp.iter).endswith(".extends")]
    if len(loops) != 1:
        raise MechanismMissing(R, "the loop over <class>.extends not found at the top level of flatten_extends")
    lp = loops[0]
    cfg = CFG(fn, R)
    for what, pred in (
        ("the base class is flattened recursively", lambda x: x.kind == "stmt" and any(is_name(c.func, "flatten_extends") for c in calls(x.ast))),
        ("the base's symbols are merged", lambda x: x.kind == "stmt" and any(isinstance(c.func, ast.Attribute) and c.func.attr == "update" and norm(c.func.value).endswith(".symbols") for c in calls(x.ast))),
        ("the base's equations are merged", lambda x: x.kind == "stmt" and isinstance(x.ast, ast.AugAssign) and norm(x.ast.target).endswith(".equations")
            or (x.kind == "stmt" and any(isinstance(c.func, ast.Attribute) and c.func.attr == "extend" and norm(c.func.value).endswith(".equations") for c in calls(x.ast)))),
    ):
        w = iteration_skips(cfg, lp, pred)
        rep.ob(R, site, "for every extends clause " + what, w is None,
               "an iteration over the extends clauses can end without it: that base's variables and equations are missing from the instance, and "
               "equations of the class that refer to them keep names that denote nothing", path=cfg.describe(w) if w else "")


@SPEC.rule(
    "R07.10",
    "each instance is flattened on objects of its own: the ownership analysis of tree.flatten finds no statement that may write to an "
    "object reached through an un-copied class lookup — a base class extended without modifications that is not copied is shared by "
    "all its instances and with the parsed tree, so renaming and prefix stripping done for one instance show up in the others",
)
def r07_10(ctx, rep):
    from ..engine import run_as
    from .c05 import r05_1
    run_as(r05_1, "R07.10", ctx, rep)


@SPEC.rule(
    "R07.11",
    "every symbol and equation is merged under its own instance: no function of the flattening passes reads a for-loop's variable after that loop has ended (the value the last iteration left behind)",
)
def r07_11(ctx, rep):
    from ._literal import no_stale_loop_variables
    no_stale_loop_variables(ctx, rep, "R07.11", TREE, "the flattening passes")


@SPEC.rule(
    "R07.12",
    "an instantiated nested class looks names up where it lives: where build_instance_tree stores the instance of a nested class in "
    "<X>.classes[...], the parent it passes to the recursive call is that same <X> (the class with its extends clauses applied) — with the "
    "un-extended original as parent, a nested class no longer sees what its enclosing class inherits, and a name resolves further out or not at all",
)
def r07_12(ctx, rep):
    R = "R07.12"
    fn = ctx.func(TREE, "build_instance_tree", R)
    site = TREE + ":build_instance_tree"
    params = [a.arg for a in fn.args.args]
    if "parent" not in params:
        raise MechanismMissing(R, "build_instance_tree has no `parent` parameter")
    pi = params.index("parent")
    n = 0
    for st in walk_local(fn):
        if isinstance(st, ast.Assign) and isinstance(st.targets[0], ast.Subscript) and norm(st.targets[0].value).endswith(".classes") \
                and isinstance(st.value, ast.Call) and is_name(st.value.func, "build_instance_tree"):
            n += 1
            holder = norm(st.targets[0].value)[: -len(".classes")]
            c = st.value
            given = c.args[pi] if len(c.args) > pi else next((k.value for k in c.keywords if k.arg == "parent"), None)
            rep.ob(R, site, "nested instance stored in %s.classes gets %s as parent" % (holder, holder), given is not None and norm(given) == holder,
                   "the instance is stored in `%s.classes` but is given `%s` as its parent: lookups from inside the nested class start in another "
                   "class than the one it is a member of" % (holder, norm(given) if given is not None else "nothing"))
    if n < 1:
        raise MechanismMissing(R, "no `<X>.classes[...] = build_instance_tree(...)` found")


@SPEC.rule(
    "R07.13",
    "every component gets the class its own type names: build_instance_tree keeps no table of looked-up classes — a store of a find_class() "
    "result under a key (`looked_up[class_name.name] = ...find_class(sym.type ...)`) answers the next component whose qualified type merely "
    "starts with the same identifier (`Lib.Tank t1; Lib.Valve v1;`) with the first one's class",
)
def r07_13(ctx, rep):
    R = "R07.13"
    probe = ast.parse("def f(c, sym):\n    memo = {}\n    memo[sym.type.name] = c.find_class(sym.type, copy=False)\n").body[0]

    def memoised(fn):
        return ["line %d: %s" % (st.lineno, norm(st)[:70]) for st in ast.walk(fn) if isinstance(st, ast.Assign) and isinstance(st.targets[0], ast.Subscript)
                and not norm(st.targets[0].value).endswith((".classes", ".symbols")) and any(
                    isinstance(c, ast.Call) and isinstance(c.func, ast.Attribute) and c.func.attr in ("find_class", "_find_class", "find_symbol") for c in ast.walk(st.value))]

    if not memoised(probe):
        raise AnalysisError(R, "self-test of the lookup-memo detector failed")
    mod = ctx.module(TREE, R)
    fns = [f for f in mod.body if isinstance(f, ast.FunctionDef)]
    hits = [h for f in fns for h in memoised(f)]
    if len(fns) < 10:
        raise MechanismMissing(R, "fewer than 10 functions scanned in tree.py")
    rep.ob(R, TREE, "no class look-up is remembered under a key", not hits, "; ".join(hits[:3]))


@SPEC.rule(
    "R07.14",
    "a class may extend a class of the same simple name: the `cannot extend itself` test of flatten_extends compares the two classes' full "
    "references (both operands call full_reference()) — compared by `.name`, `model Leaf extends Lib.Leaf` is refused and none of its "
    "inherited variables and equations are produced",
)
def r07_14(ctx, rep):
    R = "R07.14"
    fn = ctx.func(TREE, "flatten_extends", R)
    site = TREE + ":flatten_extends"
    n = 0
    for st in ast.walk(fn):
        if isinstance(st, ast.If) and any(isinstance(x, ast.Raise) and "itself" in norm(x) for x in st.body):
            n += 1
            t = st.test
            sides = [t.left] + list(t.comparators) if isinstance(t, ast.Compare) and len(t.ops) == 1 else []
            ok = len(sides) == 2 and all(any(isinstance(c, ast.Call) and isinstance(c.func, ast.Attribute) and c.func.attr == "full_reference" for c in ast.walk(s_)) for s_ in sides)
            rep.ob(R, site, "self-extension is decided on full references", ok, "the test is `%s`" % norm(t)[:80])
    if n < 1:
        raise MechanismMissing(R, "the `cannot extend class with itself` guard was not found in flatten_extends")


@SPEC.rule(
    "R07.15",
    "every instance's binding equations are emitted: add_state_value_equations turns the declaration equation of every symbol into an equation "
    "of the flat class, except for constants and parameters — the set of exempting prefixes is exactly {constant, parameter} (`discrete Real "
    "d = 2*x` is an equation like any other)",
)
def r07_15(ctx, rep):
    R = "R07.15"
    fn = ctx.func(TREE, "add_state_value_equations", R)
    site = TREE + ":add_state_value_equations"
    sets = [literal(x) for x in ast.walk(fn) if isinstance(x, (ast.Set, ast.List, ast.Tuple)) and x.elts and all(isinstance(e, ast.Constant) and isinstance(e.value, str) for e in x.elts)]
    sets = [set(x) for x in sets if x is not None and ({"constant", "parameter"} & set(x))]
    if not sets:
        raise MechanismMissing(R, "the set of exempting prefixes was not found in add_state_value_equations")
    for k, s_ in enumerate(sets):
        rep.ob(R, site, "exempting prefixes #%d" % (k + 1), s_ == {"constant", "parameter"},
               "symbols with a prefix in %s get no equation for their declaration binding: for anything but constants and parameters that equation "
               "is part of the model" % sorted(s_))
    appends = [c for c in calls(fn) if isinstance(c.func, ast.Attribute) and c.func.attr == "append" and norm(c.func.value).endswith(".equations")]
    rep.ob(R, site, "the binding becomes an equation", bool(appends), "no append to <node>.equations found")


@SPEC.rule(
    "R07.16",
    "names are resolved from the class that writes them, and a component's class is instantiated where it is declared: (a) every "
    "find_class(<e>.component) for the elements e of `<K>.extends` is called on K itself (not on K's parent with K as a fallback — a class "
    "that extends one of its own nested classes would get a same-named class of an enclosing scope); (b) where build_instance_tree "
    "instantiates the class c of a component (`build_instance_tree(c, <symbol>.class_modification, P)`), P is c.parent — parenting it to the "
    "instantiating class resolves c's own component types from the wrong scope at depth two",
)
def r07_16(ctx, rep):
    from ..pyutil import inlined
    R = "R07.16"
    n_a = n_b = 0
    mod = ctx.module(TREE, R)
    for fn in [x for x in ast.walk(mod) if isinstance(x, ast.FunctionDef)]:
        site = TREE + ":" + fn.name
        for lp in ast.walk(fn):
            if isinstance(lp, ast.For) and isinstance(lp.target, ast.Name) and isinstance(lp.iter, ast.Attribute) and lp.iter.attr == "extends":
                holder = norm(lp.iter.value)
                for c in calls(lp):
                    if isinstance(c.func, ast.Attribute) and c.func.attr == "find_class" and c.args and norm(c.args[0]) == lp.target.id + ".component":
                        n_a += 1
                        rep.ob(R, site, "base class of `%s.extends` looked up from the class itself" % holder, norm(c.func.value) == holder,
                               "`%s` resolves the name of a base class of %s from another scope: nested classes and imports of %s itself are hidden by "
                               "same-named classes further out" % (norm(c)[:70], holder, holder))
        if fn.name == "build_instance_tree":
            body = [st for st in ast.walk(fn) if isinstance(st, ast.stmt)]
            for c in calls(fn):
                if is_name(c.func, "build_instance_tree") and len(c.args) >= 2 and isinstance(c.args[0], ast.Name) and ".class_modification" in norm(c.args[1]):
                    p_ = c.args[2] if len(c.args) > 2 else next((k.value for k in c.keywords if k.arg == "parent"), None)
                    n_b += 1
                    got = norm(inlined(p_, body, keep={c.args[0].id})) if p_ is not None else "(none)"
                    rep.ob(R, site, "component class `%s` instantiated under its own parent" % c.args[0].id, got == c.args[0].id + ".parent",
                           "the instance of the component's class is parented to `%s`, not to %s.parent: names inside it are resolved from the wrong scope" % (got[:80], c.args[0].id))
    if n_a < 2 or n_b < 2:
        raise MechanismMissing(R, "expected >= 2 base-class lookups and >= 2 component instantiations, found %d / %d" % (n_a, n_b))


# -- seeded variants ---------------------------------------------------------
from ._mut import delete_stmt_where, replace_in_func  # noqa: E402


@SPEC.mutant("sub-component initial equations dropped", TREE, "R07.1", "sub.initial_equations")
def _m1(mod):
    return mod if delete_stmt_where(mod, "flatten_symbols", lambda st: norm(st) == "flat_class.initial_equations += flat_sub_class.initial_equations") else None


@SPEC.mutant("inherited statements dropped", TREE, "R07.1", "base.statements")
def _m2(mod):
    return mod if delete_stmt_where(mod, "flatten_extends", lambda st: norm(st) == "extended_orig_class.statements += c.statements") else None


@SPEC.mutant("initial equations not renamed", TREE, "R07.1", "pipeline.initial_equations")
def _m3(mod):
    def edit(fn):
        for n in ast.walk(fn):
            if isinstance(n, ast.AugAssign) and norm(n.target) == "flat_class.initial_equations" and isinstance(n.value, ast.ListComp):
                n.value = ast.Name(id="fs_initial_equations", ctx=ast.Load())
                return True
        return False

    return mod if replace_in_func(mod, "flatten_symbols", edit) else None


@SPEC.mutant("I/O stripped at top level too", TREE, "R07.2", "guard")
def _m4(mod):
    def edit(fn):
        for n in ast.walk(fn):
            if isinstance(n, ast.If) and norm(n.test) == "instance_prefix":
                n.test = ast.Constant(value=True)
                return True
        return False

    return mod if replace_in_func(mod, "flatten_symbols", edit) else None


@SPEC.mutant("parameter prefix stripped as well", TREE, "R07.2", "keywords")
def _m5(mod):
    def edit(fn):
        for n in ast.walk(fn):
            if isinstance(n, ast.Assign) and norm(n.targets[0]) == "strip_keywords":
                n.value.elts.append(ast.Constant(value="parameter"))
                return True
        return False

    return mod if replace_in_func(mod, "flatten_symbols", edit) else None


@SPEC.mutant("depth counter not decremented", TREE, "R07.4", "depth")
def _m6(mod):
    return mod if delete_stmt_where(mod, "ComponentRefFlattener.exitComponentRef", lambda st: isinstance(st, ast.AugAssign)) else None


@SPEC.mutant("recursion passes unprefixed name", TREE, "R07.3", "recursion")
def _m7(mod):
    def edit(fn):
        for c in ast.walk(fn):
            if isinstance(c, ast.Call) and is_name(c.func, "flatten_symbols") and len(c.args) == 2:
                c.args[1] = ast.Name(id="sym_name", ctx=ast.Load())
                return True
        return False

    return mod if replace_in_func(mod, "flatten_symbols", edit) else None


@SPEC.mutant("swapped section targets in flatten_extends", TREE, "R07.1", "own.")
def _m8(mod):
    def edit(fn):
        for n in ast.walk(fn):
            if isinstance(n, ast.AugAssign) and norm(n) == "extended_orig_class.initial_equations += orig_class.initial_equations":
                n.target.attr = "equations"
                return True
        return False

    return mod if replace_in_func(mod, "flatten_extends", edit) else None


@SPEC.mutant("constant references not applied", TREE, "R07.5", "apply_constant_references")
def _m9(mod):
    return mod if delete_stmt_where(mod, "flatten_class", lambda st: "apply_constant_references(" in norm(st)) else None


@SPEC.mutant("states annotated before value equations are added", TREE, "R07.5", "stage order")
def _m10(mod):
    def edit(fn):
        idx = [i for i, st in enumerate(fn.body) if "annotate_states(" in norm(st)]
        j = [i for i, st in enumerate(fn.body) if "expand_connectors(" in norm(st)]
        if not idx or not j:
            return False
        st = fn.body.pop(idx[0])
        fn.body.insert(j[0], st)
        return True

    return mod if replace_in_func(mod, "flatten", edit) else None


@SPEC.mutant("instance class keeps the extends list", TREE, "R07.6", "no extends")
def _m11(mod):
    def edit(fn):
        for n in ast.walk(fn):
            if isinstance(n, ast.Call) and (call_name(n) or "").endswith("InstanceClass"):
                n.keywords.append(ast.keyword(arg="extends", value=ast.parse("orig_class.extends", mode="eval").body))
                return True
        return False

    return mod if replace_in_func(mod, "flatten_extends", edit) else None


@SPEC.mutant("cutoff reset tested with == instead of <", TREE, "R07.7", "reset")
def _m_cut1(mod):
    def edit(fn):
        for n in ast.walk(fn):
            if isinstance(n, ast.Compare) and "cutoff_depth" in norm(n):
                n.ops = [ast.Eq()]
                return True
        return False

    return mod if replace_in_func(mod, "ComponentRefFlattener.exitComponentRef", edit) else None


@SPEC.mutant("skip test includes the unresolved reference's siblings (>=)", TREE, "R07.7", "idle")
def _m_cut2(mod):
    def edit(fn):
        for n in ast.walk(fn):
            if isinstance(n, ast.Assign) and norm(n) == "self.cutoff_depth = self.depth":
                n.value = ast.parse("self.depth - 1", mode="eval").body
                return True
        return False

    return mod if replace_in_func(mod, "ComponentRefFlattener.enterComponentRef", edit) else None


@SPEC.mutant("derived-type symbol takes the dimensions of the type's value symbol", TREE, "R07.8", "keeps its own value")
def _m_dim(mod):
    def edit(fn):
        hit = False
        for n in ast.walk(fn):
            if isinstance(n, ast.Assign) and norm(n) == "flat_sym.dimensions = flat_sym.dimensions":
                n.value = ast.parse("sym.type.symbols['__value'].dimensions", mode="eval").body
                hit = True
        return hit

    return mod if replace_in_func(mod, "flatten_symbols", edit) else None


@SPEC.mutant("bases with an already seen simple name are skipped", TREE, "R07.9", "for every extends clause")
def _m_seen_base(mod):
    def edit(fn):
        for i, st in enumerate(fn.body):
            if isinstance(st, ast.For) and norm(st.iter).endswith(".extends"):
                k = [j for j, b in enumerate(st.body) if "flatten_extends(" in norm(b)][0]
                st.body.insert(k, ast.parse("if c.name in _merged:\n    continue").body[0])
                st.body.insert(k + 1, ast.parse("_merged.add(c.name)").body[0])
                fn.body.insert(i, ast.parse("_merged = set()").body[0])
                return True
        return False

    return mod if replace_in_func(mod, "flatten_extends", edit) else None


@SPEC.mutant("nested instance gets the un-extended class as parent", TREE, "R07.12", "as parent")
def _m_nested_parent(mod):
    def edit(fn):
        for st in ast.walk(fn):
            if isinstance(st, ast.Assign) and isinstance(st.targets[0], ast.Subscript) and norm(st.targets[0].value) == "extended_orig_class.classes" \
                    and isinstance(st.value, ast.Call) and len(st.value.args) == 3:
                st.value.args[2] = ast.Name(id="orig_class", ctx=ast.Load())
                return True
        return False

    return mod if replace_in_func(mod, "build_instance_tree", edit) else None


@SPEC.mutant("base classes looked up from the enclosing scope", TREE, "R07.16", "looked up from the class itself")
def _m_extends_scope(mod):
    def edit(fn):
        for c in ast.walk(fn):
            if isinstance(c, ast.Call) and isinstance(c.func, ast.Attribute) and c.func.attr == "find_class" and c.args and norm(c.args[0]).endswith(".component"):
                c.func.value = ast.Attribute(value=c.func.value, attr="parent", ctx=ast.Load())
                return True
        return False

    return mod if replace_in_func(mod, "flatten_extends", edit) else None


@SPEC.mutant("component class instantiated inside the instantiating class", TREE, "R07.16", "instantiated under its own parent")
def _m_instance_parent(mod):
    def edit(fn):
        for c in ast.walk(fn):
            if isinstance(c, ast.Call) and is_name(c.func, "build_instance_tree") and len(c.args) == 3 and norm(c.args[2]).endswith(".parent") and ".class_modification" in norm(c.args[1]):
                c.args[2] = ast.Name(id="extended_orig_class", ctx=ast.Load())
                return True
        return False

    return mod if replace_in_func(mod, "build_instance_tree", edit) else None
