"""C07 — hierarchical flattening instantiates every component once (coverage clauses)."""
from __future__ import annotations

import ast

from ..cfg import CFG
from ..engine import AnalysisError, MechanismMissing, PropertySpec, norm
from ..pyutil import call_name, calls, dotted, is_name, literal, walk_local
from ._listener import listener_symmetry

TREE = "src/pymoca/tree.py"

SPEC = PropertySpec(
    "C07",
    "Hierarchical flattening instantiates every component once",
    decided=(
        "nothing an instance declares is dropped on the way to the flat class and the renaming pass sees all of it: "
        "every section field is merged from every base class, from the class itself and from every flattened "
        "sub-component (sibling agreement over the field lists); every equation/statement section passes through "
        "function scoping and reference renaming into the same-named flat section; leaf symbols are registered under "
        "their prefixed name; input/output are stripped only below the top level; listener counters are symmetric."
    ),
    not_decided="that each reference is renamed to the right flat name (lookup semantics); uniqueness of leaf names.",
)

S_FIELDS = ["equations", "initial_equations", "statements", "initial_statements"]
T_FIELDS = S_FIELDS + ["symbols", "classes", "functions"]


def _merges(fn, target: str):
    """{(src var, field on src): field on target} for `target.f.update(src.g)`, `target.f += src.g`, `.extend(src.g)`."""
    out = {}
    for n in walk_local(fn):
        tf = sv = sf = None
        if isinstance(n, ast.AugAssign) and isinstance(n.op, ast.Add) and isinstance(n.target, ast.Attribute) and is_name(n.target.value, target):
            tf = n.target.attr
            v = n.value
            if isinstance(v, ast.Attribute) and isinstance(v.value, ast.Name):
                sv, sf = v.value.id, v.attr
        elif isinstance(n, ast.Call) and isinstance(n.func, ast.Attribute) and n.func.attr in ("update", "extend") \
                and isinstance(n.func.value, ast.Attribute) and is_name(n.func.value.value, target) and n.args:
            tf = n.func.value.attr
            v = n.args[0]
            if isinstance(v, ast.Attribute) and isinstance(v.value, ast.Name):
                sv, sf = v.value.id, v.attr
        if tf and sv:
            out[(sv, sf)] = tf
    return out


def _prefix_vars(fn):
    """the instance-name parameter of flatten_symbols and the locals computed from it (the instance prefix)"""
    name_param = fn.args.args[1].arg
    out = {name_param}
    for n in walk_local(fn):
        if isinstance(n, ast.Assign) and isinstance(n.targets[0], ast.Name) and any(is_name(x, name_param) for x in ast.walk(n.value)):
            out.add(n.targets[0].id)
    return out


def _prefix_polarity(test, pv) -> int:
    """+1 if `test` being true means "the instance prefix is non-empty" (`p`, `p != ""`), -1 if it means "empty"
    (`not p`, `p == ""`), 0 if the test is about something else"""
    if isinstance(test, ast.UnaryOp) and isinstance(test.op, ast.Not):
        return -_prefix_polarity(test.operand, pv)
    if isinstance(test, ast.Name):
        return 1 if test.id in pv else 0
    if isinstance(test, ast.Compare) and len(test.ops) == 1 and isinstance(test.ops[0], (ast.NotEq, ast.Eq)) and isinstance(test.left, ast.Name) \
            and test.left.id in pv and isinstance(test.comparators[0], ast.Constant) and test.comparators[0].value == "":
        return 1 if isinstance(test.ops[0], ast.NotEq) else -1
    return 0


def _nonempty_assume(x, pv) -> bool:
    """CFG assume node on whose outgoing side the instance prefix is known to be non-empty"""
    pol = _prefix_polarity(x.ast, pv) if x.kind == "assume" else 0
    return pol != 0 and (pol == 1) == bool(x.taken)


def _empty_assume(x, pv) -> bool:
    pol = _prefix_polarity(x.ast, pv) if x.kind == "assume" else 0
    return pol != 0 and (pol == 1) != bool(x.taken)


def _alloc_var(fn, clsname):
    for n in walk_local(fn):
        if isinstance(n, ast.Assign) and isinstance(n.value, ast.Call) and (call_name(n.value) or "").endswith(clsname) \
                and isinstance(n.targets[0], ast.Name):
            return n.targets[0].id
    return None


@SPEC.rule(
    "R07.1",
    "section coverage (sibling agreement): flatten_extends merges {equations, initial_equations, statements, "
    "initial_statements, symbols, classes, functions} from every base class and from the class itself (plus its "
    "imports); flatten_symbols merges the same seven fields from every flattened sub-component; every section of "
    "the class being flattened goes through fully_scope_function_calls and flatten_component_refs into the "
    "same-named section of the flat class",
)
def r07_1(ctx, rep):
    R = "R07.1"
    fn = ctx.func(TREE, "flatten_extends", R)
    site = TREE + ":flatten_extends"
    tgt = _alloc_var(fn, "InstanceClass")
    if tgt is None:
        raise MechanismMissing(R, "InstanceClass allocation not found in flatten_extends")
    m = _merges(fn, tgt)
    own = fn.args.args[0].arg
    base = None
    for n in walk_local(fn):
        if isinstance(n, ast.For) and norm(n.iter) == own + ".extends":
            for st in ast.walk(n):
                if isinstance(st, ast.Assign) and isinstance(st.value, ast.Call) and is_name(st.value.func, "flatten_extends") \
                        and isinstance(st.targets[0], ast.Name):
                    base = st.targets[0].id
    if base is None:
        raise MechanismMissing(R, "recursive flatten_extends call over %s.extends not found" % own)
    for f in T_FIELDS:
        rep.ob(R, site, "base.%s" % f, m.get((base, f)) == f,
               "every base class's `%s` must be merged into the instance class's `%s` (found target %r)" % (f, f, m.get((base, f))))
    for f in T_FIELDS + ["imports"]:
        rep.ob(R, site, "own.%s" % f, m.get((own, f)) == f,
               "the class's own `%s` must be merged into the instance class's `%s` (found target %r)" % (f, f, m.get((own, f))))
    # order: bases before own (own declarations override inherited ones)
    order_ok = True
    stmts = [n for n in walk_local(fn) if isinstance(n, (ast.For, ast.Expr, ast.AugAssign))]
    loop = [n for n in fn.body if isinstance(n, ast.For) and norm(n.iter) == own + ".extends"]
    if loop:
        li = fn.body.index(loop[0])
        for i, st in enumerate(fn.body):
            if i < li and (own + ".symbols") in norm(st) and tgt + ".symbols" in norm(st):
                order_ok = False
    rep.ob(R, site, "bases before own", order_ok and bool(loop), "inherited symbols must be merged before the class's own (own declarations win)")

    fn = ctx.func(TREE, "flatten_symbols", R)
    site = TREE + ":flatten_symbols"
    flat = _alloc_var(fn, "Class")
    if flat is None:
        raise MechanismMissing(R, "flat Class allocation not found in flatten_symbols")
    sub = None
    for n in walk_local(fn):
        if isinstance(n, ast.Assign) and isinstance(n.value, ast.Call) and is_name(n.value.func, "flatten_symbols") and isinstance(n.targets[0], ast.Name):
            sub = n.targets[0].id
    if sub is None:
        raise MechanismMissing(R, "recursive flatten_symbols call not found")
    m = _merges(fn, flat)
    for f in T_FIELDS:
        rep.ob(R, site, "sub.%s" % f, m.get((sub, f)) == f,
               "a flattened sub-component's `%s` must be merged into the flat class's `%s` (found target %r)" % (f, f, m.get((sub, f))))
    # (iii) pipeline of the class's own sections
    cls_param = fn.args.args[0].arg
    pv = _prefix_vars(fn)
    prefix_var = "/".join(sorted(pv))
    tag = {}
    sinks = {}

    def scoped(call, elemvar):
        return isinstance(call, ast.Call) and is_name(call.func, "fully_scope_function_calls") and len(call.args) >= 2 \
            and is_name(call.args[0], cls_param) and is_name(call.args[1], elemvar)

    def renamed(call, elemvar):
        return isinstance(call, ast.Call) and is_name(call.func, "flatten_component_refs") and len(call.args) >= 3 \
            and is_name(call.args[0], flat) and is_name(call.args[1], elemvar) and isinstance(call.args[2], ast.Name) and call.args[2].id in pv

    def visit(stmts):
        for st in stmts:
            if isinstance(st, ast.For) and isinstance(st.target, ast.Name) and isinstance(st.iter, ast.Attribute) and is_name(st.iter.value, cls_param):
                tag[st.target.id] = (st.iter.attr, 0)
                visit(st.body)
                continue
            if isinstance(st, ast.Assign) and len(st.targets) == 1 and isinstance(st.targets[0], ast.Name):
                v = st.value
                t = st.targets[0].id
                if isinstance(v, ast.Call) and v.args and len(v.args) >= 2 and isinstance(v.args[1], ast.Name) and v.args[1].id in tag:
                    src = tag[v.args[1].id]
                    if src[1] == 0 and scoped(v, v.args[1].id):
                        tag[t] = (src[0], 1)
                    elif src[1] == 1 and renamed(v, v.args[1].id):
                        tag[t] = (src[0], 2)
                elif isinstance(v, ast.Call) and len(v.args) >= 3 and isinstance(v.args[1], ast.Call) and len(v.args[1].args) >= 2 \
                        and isinstance(v.args[1].args[1], ast.Name) and v.args[1].args[1].id in tag and tag[v.args[1].args[1].id][1] == 0:
                    # both stages in one expression: flatten_component_refs(flat, fully_scope_function_calls(cls, e, ..), prefix)
                    e0 = v.args[1].args[1].id
                    outer = ast.Call(func=v.func, args=[v.args[0], ast.Name(id=e0, ctx=ast.Load()), v.args[2]], keywords=[])
                    if scoped(v.args[1], e0) and renamed(outer, e0):
                        tag[t] = (tag[e0][0], 2)
                elif isinstance(v, ast.ListComp) and len(v.generators) == 1 and not v.generators[0].ifs and isinstance(v.generators[0].target, ast.Name):
                    g = v.generators[0]
                    e = g.target.id
                    if isinstance(g.iter, ast.Attribute) and is_name(g.iter.value, cls_param) and scoped(v.elt, e):
                        tag[t] = (g.iter.attr, 1, "list")
            tgt_field, val = None, None
            if isinstance(st, ast.AugAssign) and isinstance(st.target, ast.Attribute) and is_name(st.target.value, flat):
                tgt_field, val = st.target.attr, st.value
            elif isinstance(st, ast.Expr) and isinstance(st.value, ast.Call) and isinstance(st.value.func, ast.Attribute) \
                    and st.value.func.attr in ("append", "extend") and isinstance(st.value.func.value, ast.Attribute) \
                    and is_name(st.value.func.value.value, flat) and st.value.args:
                tgt_field, val = st.value.func.value.attr, st.value.args[0]
            if tgt_field:
                if isinstance(val, ast.Name) and tag.get(val.id, (None, -1))[1] == 2:
                    sinks[tag[val.id][0]] = tgt_field
                elif isinstance(val, ast.ListComp) and len(val.generators) == 1 and not val.generators[0].ifs:
                    g = val.generators[0]
                    if isinstance(g.iter, ast.Name) and tag.get(g.iter.id, (None, -1))[1:] == (1, "list") and isinstance(g.target, ast.Name) \
                            and renamed(val.elt, g.target.id):
                        sinks[tag[g.iter.id][0]] = tgt_field
            for sub_ in ("body", "orelse"):
                b = getattr(st, sub_, None)
                if isinstance(b, list) and not isinstance(st, ast.For):
                    visit(b)

    visit(fn.body)
    for f in S_FIELDS:
        rep.ob(R, site, "pipeline.%s" % f, sinks.get(f) == f,
               "each element of %s.%s must pass fully_scope_function_calls(%s, e, …) and flatten_component_refs(%s, e, %s) "
               "and land in %s.%s (found: %r)" % (cls_param, f, cls_param, flat, prefix_var, flat, f, sinks.get(f)))


def _strip_sites(cfg, fn):
    """CFG nodes that remove keywords from <sym>.prefixes, with the keywords they remove:
    `sym.prefixes.remove(kw)` (kw a literal or a loop variable over a literal list) or
    `sym.prefixes = [p for p in sym.prefixes if p not in <literal>]`."""
    out = []
    for node in cfg.stmts():
        a = node.ast
        if isinstance(a, (ast.FunctionDef, ast.ClassDef)):
            continue
        for c in calls(a):
            if isinstance(c.func, ast.Attribute) and c.func.attr == "remove" and isinstance(c.func.value, ast.Attribute) and c.func.value.attr == "prefixes":
                arg = c.args[0] if c.args else None
                kws = None
                if isinstance(arg, ast.Name):
                    for loop in walk_local(fn):
                        if isinstance(loop, ast.For) and is_name(loop.target, arg.id):
                            it = loop.iter
                            if isinstance(it, ast.Name):
                                for x in walk_local(fn):
                                    if isinstance(x, ast.Assign) and is_name(x.targets[0], it.id):
                                        kws = literal(x.value)
                            else:
                                kws = literal(it)
                elif arg is not None:
                    kws = [literal(arg)]
                out.append((node, norm(c.func.value.value), kws, norm(c)))
        if isinstance(a, ast.Assign) and isinstance(a.targets[0], ast.Attribute) and a.targets[0].attr == "prefixes" and isinstance(a.value, ast.ListComp):
            g = a.value.generators[0]
            if norm(g.iter) == norm(a.targets[0]) and len(g.ifs) == 1 and isinstance(g.ifs[0], ast.Compare) and isinstance(g.ifs[0].ops[0], ast.NotIn):
                out.append((node, norm(a.targets[0].value), literal(g.ifs[0].comparators[0]), norm(a)))
    return out


@SPEC.rule(
    "R07.2",
    "I/O stripping only below top level: every registration of a leaf symbol in the flat class is preceded, whenever "
    "the instance prefix is non-empty, by the removal of exactly 'input' and 'output' from that symbol's prefixes; the "
    "removal itself is guarded by the non-empty prefix",
)
def r07_2(ctx, rep):
    R = "R07.2"
    fn = ctx.func(TREE, "flatten_symbols", R)
    cfg = CFG(fn, R)
    site = TREE + ":flatten_symbols"
    sites = _strip_sites(cfg, fn)
    if not sites:
        raise MechanismMissing(R, "no statement removing keywords from <symbol>.prefixes found in flatten_symbols")
    pv = _prefix_vars(fn)
    for node, owner, kws, text in sites:
        guards = cfg.dominated_by(node.id, lambda x: _nonempty_assume(x, pv))
        rep.ob(R, site, "guard of " + text[:60], bool(guards),
               "prefix stripping must be dominated by the test that the instance prefix is non-empty (top-level inputs/outputs keep their prefix)")
    kws_all = sorted({k for _n, _o, kws, _t in sites for k in (kws or ["?"])})
    rep.ob(R, site, "keywords stripped", kws_all == ["input", "output"],
           "exactly 'input' and 'output' are stripped from nested symbols (parameter/constant/discrete/flow survive); found %s" % (kws_all,))
    # every leaf registration is reached only through a strip site (when the prefix is non-empty)
    regs = [x for x in cfg.stmts() if isinstance(x.ast, ast.Assign) and isinstance(x.ast.targets[0], ast.Subscript)
            and norm(x.ast.targets[0].value).endswith(".symbols") and isinstance(x.ast.value, ast.Name)
            and isinstance(x.ast.targets[0].slice, ast.Attribute) and x.ast.targets[0].slice.attr == "name"]
    loops = [x for x in cfg.nodes if x.kind == "iter" and norm(x.ast.iter).endswith(".symbols.items()")]
    if not regs or not loops:
        raise MechanismMissing(R, "leaf registrations (flat_class.symbols[sym.name] = sym) or the symbol loop not found")
    it = loops[0]
    entry = [s_ for s_ in cfg.succ[it.id] if cfg.nodes[s_].kind == "assume" and cfg.nodes[s_].taken][0]
    avoid = {n.id for n, _o, _k, _t in sites}
    # a removal inside `for kw in <non-empty literal list>` always runs: passing the loop header counts
    for n, _o, _k, _t in sites:
        p_ = getattr(n.ast, "_parent", None)
        while p_ is not None and p_ is not fn:
            if isinstance(p_, ast.For):
                lit = literal(p_.iter)
                if lit is None and isinstance(p_.iter, ast.Name):
                    for x in walk_local(fn):
                        if isinstance(x, ast.Assign) and is_name(x.targets[0], p_.iter.id):
                            lit = literal(x.value)
                if isinstance(lit, (list, tuple)) and len(lit) > 0:
                    avoid |= {x.id for x in cfg.nodes if x.kind == "iter" and x.ast is p_}
                break
            p_ = getattr(p_, "_parent", None)
    # with an empty prefix nothing needs stripping: those branches are not obligations
    avoid |= {x.id for x in cfg.nodes if _empty_assume(x, pv)}
    for k, r in enumerate(regs, 1):
        if r.id not in cfg.reachable(entry):
            continue
        w = cfg.path(entry, r.id, avoid=avoid - {r.id})
        rep.ob(R, site, "leaf registration #%d %s" % (k, norm(r.ast)[:50]), w is None,
               "a nested leaf symbol is stored in the flat class on a path that never strips input/output from its prefixes: "
               "the nested variable is reported as a model input/output", path=cfg.describe(w) if w else "")


@SPEC.rule(
    "R07.3",
    "name composition: a nested symbol's flat name is <instance prefix> + <its key>, the prefix is the parent's flat "
    "name + CLASS_SEPARATOR ('.'), the recursion passes the already-prefixed name, and every elementary leaf is "
    "registered in the flat class under that name",
)
def r07_3(ctx, rep):
    R = "R07.3"
    fn = ctx.func(TREE, "flatten_symbols", R)
    site = TREE + ":flatten_symbols"
    sep = ctx.module_assign(TREE, "CLASS_SEPARATOR", R)
    rep.ob(R, TREE + ":CLASS_SEPARATOR", "CLASS_SEPARATOR", literal(sep) == ".", "instance paths are dotted")
    name_param = fn.args.args[1].arg
    pref_ok = False
    pvar = None
    for n in walk_local(fn):
        pol = _prefix_polarity(n.test, {name_param}) if isinstance(n, ast.If) else 0
        if pol:
            nonempty, empty = (n.body, n.orelse) if pol == 1 else (n.orelse, n.body)
            b = {s.targets[0].id: norm(s.value) for s in nonempty if isinstance(s, ast.Assign) and isinstance(s.targets[0], ast.Name)}
            e = {s.targets[0].id: norm(s.value) for s in empty if isinstance(s, ast.Assign) and isinstance(s.targets[0], ast.Name)}
            for v in b:
                if b[v] == "%s + CLASS_SEPARATOR" % name_param and e.get(v) in (name_param, "''"):
                    pref_ok, pvar = True, v
    rep.ob(R, site, "instance_prefix", pref_ok, "instance_prefix must be <instance name> + CLASS_SEPARATOR, or empty at top level")
    loop = None
    for n in walk_local(fn):
        if isinstance(n, ast.For) and norm(n.iter) == fn.args.args[0].arg + ".symbols.items()":
            loop = n
            break
    if loop is None:
        raise MechanismMissing(R, "loop over class_.symbols.items() not found")
    kvar, svar = loop.target.elts[0].id, loop.target.elts[1].id
    body = [norm(s) for s in loop.body]
    rep.ob(R, site, "flat name", "%s.name = %s + %s" % (svar, pvar, kvar) in body,
           "the symbol's flat name must be instance_prefix + its key in the class's symbol table")
    alias = {svar}
    for s in loop.body:
        if isinstance(s, ast.Assign) and isinstance(s.value, ast.Name) and s.value.id in alias and isinstance(s.targets[0], ast.Name):
            alias.add(s.targets[0].id)
    rec = [c for c in calls(loop) if is_name(c.func, "flatten_symbols")]
    ok = bool(rec) and all(len(c.args) == 2 and isinstance(c.args[1], ast.Attribute) and c.args[1].attr == "name"
                           and isinstance(c.args[1].value, ast.Name) and c.args[1].value.id in alias
                           and norm(c.args[0]) == svar + ".type" for c in rec)
    rep.ob(R, site, "recursion passes prefixed name", ok, "flatten_symbols(sym.type, <flat name of sym>) — the sub-instance is named by its full path")
    # leaf registration
    regs = [s for s in ast.walk(loop) if isinstance(s, ast.Assign) and isinstance(s.targets[0], ast.Subscript)
            and norm(s.targets[0].value).endswith(".symbols") and isinstance(s.value, ast.Name) and s.value.id in alias]
    keys_ok = all(isinstance(s.targets[0].slice, ast.Attribute) and s.targets[0].slice.attr == "name"
                  and isinstance(s.targets[0].slice.value, ast.Name) and s.targets[0].slice.value.id in alias for s in regs)
    rep.ob(R, site, "leaf registration", len(regs) >= 2 and keys_ok,
           "elementary symbols (ComponentRef type and builtin-derived types) must be stored in flat_class.symbols under their flat name (found %d stores)" % len(regs))
    # reference renaming composes the same way
    fn2 = ctx.func(TREE, "ComponentRefFlattener.enterComponentRef", R)
    tparam = fn2.args.args[1].arg
    nvar = None
    for s in walk_local(fn2):
        if isinstance(s, ast.Assign) and isinstance(s.targets[0], ast.Name) and norm(s.value) == "self.instance_prefix + %s.name" % tparam:
            nvar = s.targets[0].id
    ok = nvar is not None and any(
        isinstance(s, ast.AugAssign) and is_name(s.target, nvar) and isinstance(s.op, ast.Add) and isinstance(s.value, ast.BinOp) and isinstance(s.value.op, ast.Add)
        and is_name(s.value.left, "CLASS_SEPARATOR") and isinstance(s.value.right, ast.Attribute) and s.value.right.attr == "name" for s in walk_local(fn2))
    rep.ob(R, TREE + ":ComponentRefFlattener.enterComponentRef", "reference name", ok,
           "a reference a.b.c inside instance p must be looked up as p.a.b.c (prefix + names joined by CLASS_SEPARATOR)")


@SPEC.rule("R07.4", "listener counter symmetry: depth / inside_modification of ComponentRefFlattener, depth and the class stacks of ConstantReferenceApplier")
def r07_4(ctx, rep):
    n = listener_symmetry(ctx, rep, "R07.4", TREE, "ComponentRefFlattener")
    n += listener_symmetry(ctx, rep, "R07.4", TREE, "ConstantReferenceApplier")
    if n < 5:
        raise MechanismMissing("R07.4", "expected >=5 enter/exit state pairs, found %d" % n)


@SPEC.rule(
    "R07.5",
    "pipeline: flatten_class runs build_instance_tree, then apply_constant_references, then flatten_symbols on the same "
    "instance tree; flatten runs flatten_class, expand_connectors, add_state_value_equations and annotate_states on the "
    "flat class on every path before returning",
)
def r07_5(ctx, rep):
    R = "R07.5"
    for fname, stages in (("flatten_class", ["build_instance_tree", "apply_constant_references", "flatten_symbols"]),
                          ("flatten", ["flatten_class", "expand_connectors", "add_state_value_equations", "annotate_states"])):
        fn = ctx.func(TREE, fname, R)
        cfg = CFG(fn, R)
        pos = {}
        for st in stages:
            nodes = [x for x in cfg.stmts() if any(is_name(c.func, st) for c in calls(x.ast))]
            ok = bool(nodes) and cfg.must_pass(cfg.entry, cfg.exit, {x.id for x in nodes}) is None
            rep.ob(R, TREE + ":" + fname, "stage " + st, ok, "every path through %s must call %s" % (fname, st))
            if nodes:
                pos[st] = nodes[0].id
        order_ok = all(a in pos and b in pos and pos[a] in cfg.dominators()[pos[b]] for a, b in zip(stages, stages[1:]))
        rep.ob(R, TREE + ":" + fname, "stage order", order_ok, "stages must run in the order %s" % " -> ".join(stages))


@SPEC.rule(
    "R07.6",
    "flatten_extends is idempotent on its own result: the InstanceClass it returns carries no extends clauses (it is "
    "created without `extends=` and `.extends` is never assigned) — build_instance_tree passes InstanceClasses through "
    "flatten_extends again, and a kept extends list would merge the base classes' equations a second time",
)
def r07_6(ctx, rep):
    R = "R07.6"
    fn = ctx.func(TREE, "flatten_extends", R)
    tgt = _alloc_var(fn, "InstanceClass")
    if tgt is None:
        raise MechanismMissing(R, "InstanceClass allocation not found in flatten_extends")
    kw = []
    for n in walk_local(fn):
        if isinstance(n, ast.Assign) and isinstance(n.value, ast.Call) and (call_name(n.value) or "").endswith("InstanceClass"):
            kw = [k.arg for k in n.value.keywords]
    assigned = [norm(n) for n in walk_local(fn) if (isinstance(n, (ast.Assign, ast.AugAssign)) and any(norm(t) == tgt + ".extends" for t in (n.targets if isinstance(n, ast.Assign) else [n.target])))
                or (isinstance(n, ast.Call) and norm(n.func).startswith(tgt + ".extends."))]
    rep.ob(R, TREE + ":flatten_extends", "result has no extends", "extends" not in kw and not assigned,
           "the flattened instance class keeps extends clauses (%s): when it is flattened again (nested class used as a component type) "
           "the inherited equations are added twice" % (["extends= keyword"] * ("extends" in kw) + assigned))
    # and a re-run on an InstanceClass must not lose its environment
    keep = any(isinstance(n, ast.If) and "isinstance(%s, ast.InstanceClass)" % fn.args.args[0].arg in norm(n.test)
               and any(norm(s_).startswith(tgt + ".modification_environment =") for s_ in n.body) for n in walk_local(fn))
    rep.ob(R, TREE + ":flatten_extends", "instance environment kept", keep, "an InstanceClass passed in keeps its modification_environment")


# -- seeded variants ---------------------------------------------------------
from ._mut import delete_stmt_where, replace_in_func  # noqa: E402


@SPEC.mutant("sub-component initial equations dropped", TREE, "R07.1", "sub.initial_equations")
def _m1(mod):
    return mod if delete_stmt_where(mod, "flatten_symbols", lambda st: norm(st) == "flat_class.initial_equations += flat_sub_class.initial_equations") else None


@SPEC.mutant("inherited statements dropped", TREE, "R07.1", "base.statements")
def _m2(mod):
    return mod if delete_stmt_where(mod, "flatten_extends", lambda st: norm(st) == "extended_orig_class.statements += c.statements") else None


@SPEC.mutant("initial equations not renamed", TREE, "R07.1", "pipeline.initial_equations")
def _m3(mod):
    def edit(fn):
        for n in ast.walk(fn):
            if isinstance(n, ast.AugAssign) and norm(n.target) == "flat_class.initial_equations" and isinstance(n.value, ast.ListComp):
                n.value = ast.Name(id="fs_initial_equations", ctx=ast.Load())
                return True
        return False

    return mod if replace_in_func(mod, "flatten_symbols", edit) else None


@SPEC.mutant("I/O stripped at top level too", TREE, "R07.2", "guard")
def _m4(mod):
    def edit(fn):
        for n in ast.walk(fn):
            if isinstance(n, ast.If) and norm(n.test) == "instance_prefix":
                n.test = ast.Constant(value=True)
                return True
        return False

    return mod if replace_in_func(mod, "flatten_symbols", edit) else None


@SPEC.mutant("parameter prefix stripped as well", TREE, "R07.2", "keywords")
def _m5(mod):
    def edit(fn):
        for n in ast.walk(fn):
            if isinstance(n, ast.Assign) and norm(n.targets[0]) == "strip_keywords":
                n.value.elts.append(ast.Constant(value="parameter"))
                return True
        return False

    return mod if replace_in_func(mod, "flatten_symbols", edit) else None


@SPEC.mutant("depth counter not decremented", TREE, "R07.4", "depth")
def _m6(mod):
    return mod if delete_stmt_where(mod, "ComponentRefFlattener.exitComponentRef", lambda st: isinstance(st, ast.AugAssign)) else None


@SPEC.mutant("recursion passes unprefixed name", TREE, "R07.3", "recursion")
def _m7(mod):
    def edit(fn):
        for c in ast.walk(fn):
            if isinstance(c, ast.Call) and is_name(c.func, "flatten_symbols") and len(c.args) == 2:
                c.args[1] = ast.Name(id="sym_name", ctx=ast.Load())
                return True
        return False

    return mod if replace_in_func(mod, "flatten_symbols", edit) else None


@SPEC.mutant("swapped section targets in flatten_extends", TREE, "R07.1", "own.")
def _m8(mod):
    def edit(fn):
        for n in ast.walk(fn):
            if isinstance(n, ast.AugAssign) and norm(n) == "extended_orig_class.initial_equations += orig_class.initial_equations":
                n.target.attr = "equations"
                return True
        return False

    return mod if replace_in_func(mod, "flatten_extends", edit) else None


@SPEC.mutant("constant references not applied", TREE, "R07.5", "apply_constant_references")
def _m9(mod):
    return mod if delete_stmt_where(mod, "flatten_class", lambda st: "apply_constant_references(" in norm(st)) else None


@SPEC.mutant("states annotated before value equations are added", TREE, "R07.5", "stage order")
def _m10(mod):
    def edit(fn):
        idx = [i for i, st in enumerate(fn.body) if "annotate_states(" in norm(st)]
        j = [i for i, st in enumerate(fn.body) if "expand_connectors(" in norm(st)]
        if not idx or not j:
            return False
        st = fn.body.pop(idx[0])
        fn.body.insert(j[0], st)
        return True

    return mod if replace_in_func(mod, "flatten", edit) else None


@SPEC.mutant("instance class keeps the extends list", TREE, "R07.6", "no extends")
def _m11(mod):
    def edit(fn):
        for n in ast.walk(fn):
            if isinstance(n, ast.Call) and (call_name(n) or "").endswith("InstanceClass"):
                n.keywords.append(ast.keyword(arg="extends", value=ast.parse("orig_class.extends", mode="eval").body))
                return True
        return False

    return mod if replace_in_func(mod, "flatten_extends", edit) else None
