"""Tiny abstract interpreter for straight-line/loop code over symbolic lists.

Used to decide index-pairing clauses (which condition guards which branch) without
matching statement text: the function body is *interpreted on symbolic inputs* —
lists of opaque symbols — with library calls given a symbolic meaning by the caller.
Nothing of pymoca is imported or executed; only the AST of one function is walked.
Fails closed (SymExecError) on any construct it does not know.
"""
from __future__ import annotations

import ast
from typing import Any, Callable, Dict, Optional

from .engine import norm
from .pyutil import dotted


class SymExecError(Exception):
    pass


class Obj:
    """attribute bag standing for `tree` / `self`"""

    def __init__(self, **kw):
        self.__dict__.update(kw)


class Interp:
    def __init__(self, calls: Dict[str, Callable], env: Dict[str, Any], max_steps: int = 2000):
        self.calls = calls
        self.env = dict(env)
        self.steps = 0
        self.max_steps = max_steps
        self.stores = []  # (target text, value)
        self.returned = None

    # -- expressions ------------------------------------------------------
    def ev(self, e):
        self.steps += 1
        if self.steps > self.max_steps:
            raise SymExecError("step limit")
        if isinstance(e, ast.Constant):
            return e.value
        if isinstance(e, ast.Name):
            if e.id in self.env:
                return self.env[e.id]
            raise SymExecError("unknown name %s" % e.id)
        if isinstance(e, ast.Attribute):
            d = dotted(e)
            if d in self.env:
                return self.env[d]
            base = self.ev(e.value)
            if isinstance(base, Obj) and hasattr(base, e.attr):
                return getattr(base, e.attr)
            raise SymExecError("unknown attribute %s" % norm(e))
        if isinstance(e, ast.Subscript):
            base = self.ev(e.value)
            if isinstance(e.slice, ast.Slice):
                lo = self.ev(e.slice.lower) if e.slice.lower is not None else None
                hi = self.ev(e.slice.upper) if e.slice.upper is not None else None
                st = self.ev(e.slice.step) if e.slice.step is not None else None
                return base[lo:hi:st]
            return base[self.ev(e.slice)]
        if isinstance(e, ast.UnaryOp):
            v = self.ev(e.operand)
            if isinstance(e.op, ast.USub):
                return -v
            if isinstance(e.op, ast.Not):
                return not v
            raise SymExecError("unary")
        if isinstance(e, ast.BinOp):
            a, b = self.ev(e.left), self.ev(e.right)
            if isinstance(e.op, ast.Add):
                return a + b
            if isinstance(e.op, ast.Sub):
                return a - b
            if isinstance(e.op, ast.Mult):
                return a * b
            raise SymExecError("binop")
        if isinstance(e, ast.Compare) and len(e.ops) == 1:
            a, b = self.ev(e.left), self.ev(e.comparators[0])
            op = e.ops[0]
            table = {ast.Eq: lambda: a == b, ast.NotEq: lambda: a != b, ast.Lt: lambda: a < b, ast.LtE: lambda: a <= b,
                     ast.Gt: lambda: a > b, ast.GtE: lambda: a >= b, ast.Is: lambda: a is b, ast.IsNot: lambda: a is not b}
            if type(op) in table:
                return table[type(op)]()
            raise SymExecError("compare")
        if isinstance(e, ast.BoolOp):
            vals = [self.ev(v) for v in e.values]
            return all(vals) if isinstance(e.op, ast.And) else any(vals)
        if isinstance(e, (ast.List, ast.Tuple)):
            out = []
            for x in e.elts:
                if isinstance(x, ast.Starred):
                    out.extend(self.ev(x.value))
                else:
                    out.append(self.ev(x))
            return out if isinstance(e, ast.List) else tuple(out)
        if isinstance(e, ast.Set):
            return {self.ev(x) for x in e.elts}
        if isinstance(e, (ast.ListComp, ast.SetComp, ast.GeneratorExp)):
            if len(e.generators) != 1:
                raise SymExecError("nested comprehension")
            g = e.generators[0]
            out = []
            saved = dict(self.env)
            for item in self.ev(g.iter):
                self.bind(g.target, item)
                if all(self.ev(c) for c in g.ifs):
                    out.append(self.ev(e.elt))
            self.env = saved
            return set(out) if isinstance(e, ast.SetComp) else out
        if isinstance(e, ast.Call):
            name = dotted(e.func)
            args = []
            for a in e.args:
                if isinstance(a, ast.Starred):
                    args.extend(self.ev(a.value))
                else:
                    args.append(self.ev(a))
            kw = {k.arg: self.ev(k.value) for k in e.keywords if k.arg}
            if name in self.calls:
                return self.calls[name](*args, **kw)
            if name is None and isinstance(e.func, ast.Attribute):
                # a call on the result of another call (ctx.output_expression_list().expression()): ask the symbolic object
                base = self.ev(e.func.value)
                meth = getattr(base, e.func.attr, None) if isinstance(base, Obj) else None
                if callable(meth):
                    return meth(*args, **kw)
                raise SymExecError("unknown method %s" % norm(e.func)[:40])
            if isinstance(e.func, ast.Attribute) and e.func.attr in ("append", "extend", "insert", "pop", "copy", "index"):
                try:
                    base = self.ev(e.func.value)
                except SymExecError:
                    base = None
                if isinstance(base, list):
                    return getattr(base, e.func.attr)(*args)
            if name == "len":
                return len(args[0])
            if name == "range":
                return list(range(*args))
            if name == "zip":
                return list(zip(*args))
            if name == "reversed":
                return list(reversed(args[0]))
            if name == "enumerate":
                return list(enumerate(args[0]))
            if name == "list":
                return list(args[0]) if args else []
            if name == "isinstance":
                raise SymExecError("isinstance")
            raise SymExecError("unknown call %s" % name)
        if isinstance(e, ast.IfExp):
            return self.ev(e.body) if self.ev(e.test) else self.ev(e.orelse)
        if isinstance(e, ast.JoinedStr):
            return "<str>"
        raise SymExecError("expr %s" % type(e).__name__)

    def bind(self, target, value):
        if isinstance(target, ast.Name):
            self.env[target.id] = value
        elif isinstance(target, (ast.Tuple, ast.List)):
            vals = list(value)
            if len(vals) != len(target.elts):
                raise SymExecError("unpack")
            for t, v in zip(target.elts, vals):
                self.bind(t, v)
        elif isinstance(target, (ast.Subscript, ast.Attribute)):
            self.stores.append((norm(target), value))
            if isinstance(target, ast.Subscript):
                try:
                    base = self.ev(target.value)
                    base[self.ev(target.slice)] = value
                except Exception:
                    pass
        else:
            raise SymExecError("bind")

    # -- statements ---------------------------------------------------------
    class _Return(Exception):
        pass

    def run(self, body):
        try:
            self.block(body)
        except Interp._Return:
            pass
        return self

    def block(self, stmts):
        for st in stmts:
            self.stmt(st)

    def stmt(self, st):
        self.steps += 1
        if self.steps > self.max_steps:
            raise SymExecError("step limit")
        if isinstance(st, ast.Assign):
            v = self.ev(st.value)
            for t in st.targets:
                self.bind(t, v)
        elif isinstance(st, ast.AugAssign):
            cur = self.ev(st.target)
            v = self.ev(st.value)
            if isinstance(st.op, ast.Add):
                self.bind(st.target, cur + v)
            elif isinstance(st.op, ast.Sub):
                self.bind(st.target, cur - v)
            else:
                raise SymExecError("augassign")
        elif isinstance(st, ast.Expr):
            if isinstance(st.value, ast.Call) and (dotted(st.value.func) or "").startswith(("logger.", "log.")):
                return
            if isinstance(st.value, ast.Constant):
                return
            self.ev(st.value)
        elif isinstance(st, ast.For):
            for item in list(self.ev(st.iter)):
                self.bind(st.target, item)
                self.block(st.body)
        elif isinstance(st, ast.If):
            self.block(st.body if self.ev(st.test) else st.orelse)
        elif isinstance(st, ast.Assert):
            if not self.ev(st.test):
                raise SymExecError("assertion fails on the symbolic input: " + norm(st.test))
        elif isinstance(st, ast.Return):
            self.returned = self.ev(st.value) if st.value is not None else None
            raise Interp._Return()
        elif isinstance(st, ast.Raise):
            raise SymExecError("raise reached: " + norm(st))
        elif isinstance(st, ast.Pass):
            return
        else:
            raise SymExecError("stmt %s" % type(st).__name__)
