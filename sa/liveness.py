"""Rule liveness by seeded variants (thorough tier).

For every registered mutant the module AST of ONE file of /repo's current tree
is edited (AST-computed edit, no text matching), un-parsed into an in-memory
overlay, and the property's rules are evaluated again on that overlay.  The
mutant *fires* if a violation appears that the unchanged tree does not have,
from the expected rule and naming the expected construct.  Nothing is written
to disk and pymoca is never executed.

A mutant whose anchor cannot be found on the current tree is recorded as
'anchor-missing'; a mutant whose target instance is already violated on the
current tree (an open known finding) is recorded as 'already-violated'.
Liveness results are evidence about the *checker*; they never turn into a
VIOLATION of the property.
"""
from __future__ import annotations

import ast
import copy
from concurrent.futures import ProcessPoolExecutor

from .engine import AnalysisError, Context, run_rules


def _one(args):
    pid, mutant_index, repo, base_idents, base_rules = args
    from . import props

    spec = props.get(pid)
    m = spec.mutants[mutant_index]
    try:
        if m.needs_fixed and m.expect_rule in base_rules:
            return (m.name, "already-violated", "target instance is an open finding on this tree")
        ctx0 = Context(repo)
        if m.rel.endswith(".py"):
            tree = copy.deepcopy(ctx0.module(m.rel))
            new = m.edit(tree)
            if new is None:
                return (m.name, "anchor-missing", "")
            src = ast.unparse(ast.fix_missing_locations(new))
        else:
            new = m.edit(ctx0.read(m.rel))
            if new is None:
                return (m.name, "anchor-missing", "")
            src = new
        ctx = Context(repo, overlay={m.rel: src})
        rep = run_rules(spec, ctx, "quick")
        new_v = [o for o in rep.violations if o.ident() not in base_idents]
        hits = [
            o
            for o in new_v
            if o.rule == m.expect_rule and (m.expect_key in o.key or m.expect_key in o.site or m.expect_key in o.msg)
        ]
        if hits:
            return (m.name, "fired", "%s [%s] %s" % (hits[0].rule, hits[0].site, hits[0].key))
        if new_v:
            return (m.name, "fired-other", "; ".join("%s %s" % (o.rule, o.key) for o in new_v[:3]))
        if rep.analysis_errors:
            return (m.name, "analysis-error", "; ".join(str(e) for e in rep.analysis_errors))
        return (m.name, "missed", "no new violation (expected %s %s)" % (m.expect_rule, m.expect_key))
    except Exception as e:  # noqa: BLE001
        return (m.name, "error", "%s: %s" % (type(e).__name__, e))


def run_liveness(spec, repo, base_report, jobs=16):
    base_idents = {o.ident() for o in base_report.violations}
    base_rules = {o.rule for o in base_report.violations}
    tasks = [(spec.pid, i, repo, base_idents, base_rules) for i in range(len(spec.mutants))]
    results = []
    if tasks:
        if jobs > 1 and len(tasks) > 2:
            with ProcessPoolExecutor(max_workers=min(jobs, len(tasks))) as ex:
                results = list(ex.map(_one, tasks))
        else:
            results = [_one(t) for t in tasks]
    out = {
        "generated": len(results),
        "fired": sum(1 for r in results if r[1] == "fired"),
        "fired_other_rule": [r[0] for r in results if r[1] == "fired-other"],
        "missed": [r[0] + ": " + r[2] for r in results if r[1] in ("missed", "error", "analysis-error")],
        "already_violated": [r[0] for r in results if r[1] == "already-violated"],
        "anchor_missing": [r[0] for r in results if r[1] == "anchor-missing"],
        "variants": [{"name": r[0], "result": r[1], "report": r[2]} for r in results],
    }
    return out
