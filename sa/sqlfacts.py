"""SQL facts from string literals passed to ``<cursor>.execute`` in parser.py."""
from __future__ import annotations

import ast
import re
from typing import Dict, List, Optional, Tuple

from .cfg import CFG, Node
from .engine import norm
from .pyutil import call_name, calls, const_str, method_name, walk_local

READ_KW = ("SELECT",)
WRITE_KW = ("INSERT", "UPDATE", "DELETE", "DROP", "CREATE", "REPLACE", "ALTER")


def sql_norm(s: str) -> str:
    return re.sub(r"\s+", " ", s).strip().rstrip(";").strip()


def classify(sql: str) -> Tuple[str, str]:
    """(kind, detail): kind in begin/read/write/pragma-read/other."""
    s = sql_norm(sql)
    up = s.upper()
    if up.startswith("BEGIN"):
        mode = "deferred"
        if "IMMEDIATE" in up:
            mode = "immediate"
        elif "EXCLUSIVE" in up:
            mode = "exclusive"
        return "begin", mode
    if up.startswith("COMMIT") or up.startswith("END"):
        return "commit", ""
    if up.startswith("ROLLBACK"):
        return "rollback", ""
    if up.startswith("PRAGMA"):
        return "read", s
    for k in READ_KW:
        if up.startswith(k):
            return "read", s
    for k in WRITE_KW:
        if up.startswith(k):
            return "write", s
    return "other", s


class Event:
    __slots__ = ("kind", "detail", "call", "node")

    def __init__(self, kind, detail, call, node):
        self.kind = kind
        self.detail = detail
        self.call = call
        self.node = node

    def __repr__(self):
        return "<%s %s>" % (self.kind, self.detail[:40])


def node_calls(n: Node) -> List[ast.Call]:
    """Calls evaluated *at* this CFG node (not in nested bodies)."""
    if n.kind == "stmt":
        if isinstance(n.ast, (ast.FunctionDef, ast.ClassDef)):
            return []
        return list(calls(n.ast))
    if n.kind == "test":
        return list(calls(n.ast))
    if n.kind == "iter":
        return list(calls(n.ast.iter))
    if n.kind == "with":
        out = []
        for it in n.ast.items:
            out.extend(calls(it.context_expr))
        return out
    return []


def sql_events(cfg: CFG) -> Dict[int, List[Event]]:
    """Per CFG node, the ordered SQL-relevant events it performs."""
    out: Dict[int, List[Event]] = {}
    for n in cfg.nodes:
        evs = []
        cs = node_calls(n)
        # evaluation order: inner calls first; ast.walk order is outer first, so reverse
        for c in reversed(cs):
            m = method_name(c)
            if m == "execute" and c.args:
                s = const_str(c.args[0])
                if s is None:
                    evs.append(Event("dynamic-sql", norm(c.args[0]), c, n))
                else:
                    k, d = classify(s)
                    evs.append(Event(k, d if k != "begin" else d, c, n))
            elif m == "executemany" or m == "executescript":
                evs.append(Event("dynamic-sql", norm(c), c, n))
            elif m == "commit" and isinstance(c.func, ast.Attribute):
                evs.append(Event("commit", "", c, n))
            elif m == "rollback" and isinstance(c.func, ast.Attribute):
                evs.append(Event("rollback", "", c, n))
            elif m == "close" and isinstance(c.func, ast.Attribute):
                evs.append(Event("close", norm(c.func.value), c, n))
            elif call_name(c) == "sqlite3.connect":
                evs.append(Event("connect", norm(c), c, n))
            elif isinstance(c.func, ast.Name):
                evs.append(Event("call", c.func.id, c, n))
        if evs:
            out[n.id] = evs
    return out


def where_columns(sql: str) -> List[str]:
    m = re.search(r"\bWHERE\b(.*)$", sql_norm(sql), re.I | re.S)
    if not m:
        return []
    return re.findall(r"(\w+)\s*(?:=|<|>|<=|>=|!=)\s*\?", m.group(1))


def placeholders_before_where(sql: str) -> int:
    s = sql_norm(sql)
    m = re.search(r"\bWHERE\b", s, re.I)
    head = s[: m.start()] if m else s
    return head.count("?")


def select_columns(sql: str) -> List[str]:
    m = re.match(r"SELECT\s+(.*?)\s+FROM\b", sql_norm(sql), re.I | re.S)
    if not m:
        return []
    return [c.strip() for c in m.group(1).split(",")]


def table_of(sql: str) -> Optional[str]:
    s = sql_norm(sql)
    for pat in (
        r"\bFROM\s+(\w+)",
        r"\bINTO\s+(\w+)",
        r"^UPDATE\s+(\w+)",
        r"\bTABLE\s+(?:IF\s+(?:NOT\s+)?EXISTS\s+)?(\w+)",
        r"table_info\('?(\w+)'?\)",
    ):
        m = re.search(pat, s, re.I)
        if m:
            return m.group(1)
    return None


def insert_columns(sql: str) -> List[str]:
    m = re.search(r"\bINTO\s+\w+\s*\(([^)]*)\)", sql_norm(sql), re.I)
    if not m:
        return []
    return [c.strip() for c in m.group(1).split(",")]


def create_table_layout(sql: str):
    """(table, [(cid, name, type, notnull, default, pkpos)]) as PRAGMA table_info reports it."""
    s = sql_norm(sql)
    m = re.match(r"CREATE\s+TABLE\s+(?:IF\s+NOT\s+EXISTS\s+)?(\w+)\s*\((.*)\)$", s, re.I | re.S)
    if not m:
        return None
    table, body = m.group(1), m.group(2)
    parts, depth, cur = [], 0, ""
    for ch in body:
        if ch == "(":
            depth += 1
        elif ch == ")":
            depth -= 1
        if ch == "," and depth == 0:
            parts.append(cur.strip())
            cur = ""
        else:
            cur += ch
    if cur.strip():
        parts.append(cur.strip())
    cols, pk = [], []
    for p in parts:
        mm = re.match(r"PRIMARY\s+KEY\s*\(([^)]*)\)", p, re.I)
        if mm:
            pk = [x.strip() for x in mm.group(1).split(",")]
            continue
        toks = p.split()
        name = toks[0]
        rest = toks[1:]
        notnull = 0
        inline_pk = False
        typ = []
        i = 0
        while i < len(rest):
            t = rest[i].upper()
            if t == "NOT" and i + 1 < len(rest) and rest[i + 1].upper() == "NULL":
                notnull = 1
                i += 2
                continue
            if t == "PRIMARY":
                inline_pk = True
                i += 2
                continue
            if t in ("UNIQUE", "DEFAULT", "CHECK", "REFERENCES", "COLLATE"):
                break
            typ.append(rest[i])
            i += 1
        cols.append([name, " ".join(typ), notnull, inline_pk])
    rows = []
    for i, (name, typ, notnull, inline_pk) in enumerate(cols):
        if inline_pk:
            pkpos = 1
        elif name in pk:
            pkpos = pk.index(name) + 1
        else:
            pkpos = 0
        rows.append((i, name, typ, notnull, None, pkpos))
    return table, rows, pk
