"""Facts extracted from the generated ANTLR parser (its Python AST; never imported)."""
from __future__ import annotations

import ast
from typing import Dict, List, Optional

from .engine import AnalysisError, Context, norm
from .pyutil import call_name, dotted, literal

GEN = "src/pymoca/generated/ModelicaParser.py"


class GenParser:
    def __init__(self, ctx: Context, rule: str):
        self.mod = ctx.module(GEN, rule)
        self.cls = None
        for st in self.mod.body:
            if isinstance(st, ast.ClassDef) and st.name == "ModelicaParser":
                self.cls = st
        if self.cls is None:
            raise AnalysisError(rule, "class ModelicaParser not found in generated parser")
        self.rule = rule
        self.literal_names: List[str] = []
        self.symbolic_names: List[str] = []
        self.rule_names: List[str] = []
        self.token_const: Dict[str, int] = {}
        self.contexts: Dict[str, dict] = {}
        self.methods: Dict[str, ast.FunctionDef] = {}
        for st in self.cls.body:
            if isinstance(st, ast.Assign) and len(st.targets) == 1 and isinstance(st.targets[0], ast.Name):
                name = st.targets[0].id
                if name == "literalNames":
                    self.literal_names = literal(st.value) or []
                elif name == "symbolicNames":
                    self.symbolic_names = literal(st.value) or []
                elif name == "ruleNames":
                    self.rule_names = literal(st.value) or []
                elif isinstance(st.value, ast.Constant) and isinstance(st.value.value, int):
                    self.token_const[name] = st.value.value
            elif isinstance(st, ast.ClassDef) and st.name.endswith("Context"):
                self.contexts[st.name] = self._ctx_facts(st)
            elif isinstance(st, ast.FunctionDef):
                self.methods[st.name] = st
        if not self.contexts or not self.literal_names:
            raise AnalysisError(rule, "generated parser has no context classes / literalNames")

    def _ctx_facts(self, c: ast.ClassDef) -> dict:
        base = None
        for b in c.bases:
            d = dotted(b)
            if d:
                base = d.split(".")[-1]
        methods, attrs = {}, set()
        for st in c.body:
            if isinstance(st, ast.FunctionDef):
                if st.name == "__init__":
                    for n in ast.walk(st):
                        if isinstance(n, ast.Attribute) and isinstance(n.ctx, ast.Store) and isinstance(n.value, ast.Name) and n.value.id == "self":
                            attrs.add(n.attr)
                    continue
                kind, target = "other", None
                indexed = any(a.arg == "i" for a in st.args.args)
                for n in ast.walk(st):
                    if isinstance(n, ast.Call) and isinstance(n.func, ast.Attribute):
                        if n.func.attr in ("getTypedRuleContext", "getTypedRuleContexts"):
                            kind = "rule"
                            target = dotted(n.args[0]).split(".")[-1] if n.args else None
                        elif n.func.attr in ("getToken", "getTokens"):
                            kind = "token"
                            target = dotted(n.args[0]).split(".")[-1] if n.args else None
                methods[st.name] = {"kind": kind, "target": target, "indexed": indexed}
        return {"base": base, "methods": methods, "attrs": attrs}

    # -- member resolution ------------------------------------------------
    def member(self, cname: str, name: str) -> Optional[dict]:
        """Accessor/attribute ``name`` on context class ``cname`` (own or inherited
        from another generated context)."""
        seen = set()
        while cname in self.contexts and cname not in seen:
            seen.add(cname)
            c = self.contexts[cname]
            if name in c["methods"]:
                return dict(c["methods"][name], where=cname, is_method=True)
            if name in c["attrs"]:
                return {"kind": "attr", "target": None, "indexed": False, "where": cname, "is_method": False}
            cname = c["base"]
        return None

    # -- expr() -------------------------------------------------------------
    def literal_of(self, ttype: int) -> str:
        if 0 <= ttype < len(self.literal_names):
            s = self.literal_names[ttype]
            if isinstance(s, str) and s.startswith("'"):
                return s[1:-1]
        if 0 <= ttype < len(self.symbolic_names):
            return self.symbolic_names[ttype]
        return "<%d>" % ttype

    def expr_table(self):
        fn = self.methods.get("expr")
        if fn is None:
            raise AnalysisError(self.rule, "ModelicaParser.expr() not found")
        alts = []
        for node in ast.walk(fn):
            if not isinstance(node, ast.If):
                continue
            t = node.test
            if not (isinstance(t, ast.Compare) and isinstance(t.left, ast.Name) and t.left.id == "la_"):
                continue
            body = node.body
            ctxclass = None
            for st in body:
                if isinstance(st, ast.Assign) and isinstance(st.targets[0], ast.Name) and st.targets[0].id == "localctx":
                    if isinstance(st.value, ast.Call):
                        d = dotted(st.value.func)
                        if d:
                            ctxclass = d.split(".")[-1]
                    break
            if ctxclass is None:
                continue
            prec, operands, tokens = None, [], []
            for st in body:
                for n in ast.walk(st):
                    if isinstance(n, ast.Call) and isinstance(n.func, ast.Attribute):
                        if n.func.attr == "precpred" and len(n.args) == 2:
                            prec = literal(n.args[1])
                        elif n.func.attr == "expr" and isinstance(n.func.value, ast.Name) and n.func.value.id == "self":
                            operands.append(literal(n.args[0]) if n.args else 0)
                        elif n.func.attr == "primary" and isinstance(n.func.value, ast.Name) and n.func.value.id == "self":
                            operands.append("primary")
                        elif n.func.attr == "match" and n.args:
                            d = dotted(n.args[0])
                            if d and d.split(".")[-1] in self.token_const:
                                tokens.append(self.literal_of(self.token_const[d.split(".")[-1]]))
                # token-set test: if not (<cond on _la>): recoverInline
                if isinstance(st, ast.If) and isinstance(st.test, ast.UnaryOp) and isinstance(st.test.op, ast.Not):
                    if any(isinstance(x, ast.Name) and x.id == "_la" for x in ast.walk(st.test)):
                        for la in range(0, 256):
                            try:
                                if _eval(st.test.operand, {"_la": la}):
                                    tokens.append(self.literal_of(la))
                            except Exception:
                                raise AnalysisError(self.rule, "cannot evaluate token-set test %s" % norm(st.test))
            alts.append({"ctx": ctxclass, "prec": prec, "operands": operands, "tokens": tokens})
        return alts

    def serialized_atn(self):
        for st in self.mod.body:
            if isinstance(st, ast.FunctionDef) and st.name == "serializedATN":
                for n in ast.walk(st):
                    if isinstance(n, ast.Return):
                        v = literal(n.value)
                        if isinstance(v, list):
                            return v
        raise AnalysisError(self.rule, "serializedATN() literal not found")


def _eval(node, env):
    if isinstance(node, ast.Constant):
        return node.value
    if isinstance(node, ast.Name):
        return env[node.id]
    if isinstance(node, ast.BoolOp):
        vals = [_eval(v, env) for v in node.values]
        return all(vals) if isinstance(node.op, ast.And) else any(vals)
    if isinstance(node, ast.UnaryOp):
        v = _eval(node.operand, env)
        if isinstance(node.op, ast.Not):
            return not v
        if isinstance(node.op, ast.Invert):
            return ~v
        if isinstance(node.op, ast.USub):
            return -v
    if isinstance(node, ast.BinOp):
        a, b = _eval(node.left, env), _eval(node.right, env)
        op = node.op
        if isinstance(op, ast.BitAnd):
            return a & b
        if isinstance(op, ast.BitOr):
            return a | b
        if isinstance(op, ast.LShift):
            return a << b if b >= 0 else 0
        if isinstance(op, ast.RShift):
            return a >> b
        if isinstance(op, ast.Sub):
            return a - b
        if isinstance(op, ast.Add):
            return a + b
    if isinstance(node, ast.Compare) and len(node.ops) == 1:
        a, b = _eval(node.left, env), _eval(node.comparators[0], env)
        op = node.ops[0]
        if isinstance(op, ast.Eq):
            return a == b
        if isinstance(op, ast.NotEq):
            return a != b
        if isinstance(op, ast.Lt):
            return a < b
        if isinstance(op, ast.LtE):
            return a <= b
        if isinstance(op, ast.Gt):
            return a > b
        if isinstance(op, ast.GtE):
            return a >= b
    raise ValueError("unsupported expression")


def get(ctx: Context, rule: str) -> GenParser:
    if "genparser" not in ctx.cache:
        ctx.cache["genparser"] = GenParser(ctx, rule)
    return ctx.cache["genparser"]


def atn_precedences(serialized: List[int], rule_index: int):
    """(precedence predicates, rule-transition precedences into the same rule)
    read from the serialized ATN with the ANTLR runtime's own deserializer
    (library code; no pymoca code runs)."""
    from antlr4.atn.ATNDeserializer import ATNDeserializer
    from antlr4.atn.Transition import PrecedencePredicateTransition, RuleTransition

    atn = ATNDeserializer().deserialize(serialized)
    preds, calls_ = [], []
    for st in atn.states:
        if st is None or st.ruleIndex != rule_index:
            continue
        for t in st.transitions:
            if isinstance(t, PrecedencePredicateTransition):
                preds.append(t.precedence)
            elif isinstance(t, RuleTransition) and t.ruleIndex == rule_index:
                calls_.append(t.precedence)
    return sorted(preds), sorted(calls_)
