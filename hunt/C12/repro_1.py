"""C12 / finding 1: expand_mx=True crashes on models with an interpolant when
expand_vectors=True (Model._expand_simplify_mx turns SX call nodes into invalid MX nodes)."""
import sys
from repro_common import try_build

SRC = """
model Interpolate
    parameter Real xp[3] = {0.0, 1.0, 2.0};
    parameter Real yp[3] = {0.0, 1.0, 4.0};
    Real x, y;
equation
    der(x) = 1;
    y = _pymoca_interp1d(xp, yp, x);
end Interpolate;
"""
res = {}
for emx in (False, True):
    res[emx] = try_build(SRC, "Interpolate", {"expand_vectors": True, "expand_mx": emx})
    print("expand_vectors=True expand_mx=%s -> %s %s" % (emx, res[emx][0], res[emx][1] if res[emx][0] == "err" else ""))
if res[False][0] == "ok" and res[True][0] != "ok":
    print("DEFECT: toggling expand_mx turns a working model into a crash")
    sys.exit(1)
sys.exit(0)
