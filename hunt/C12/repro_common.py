"""Shared helpers for the C12 repro scripts (no project files are modified)."""
import os
import sys

# PYMOCA_SRC can point at a patched copy of src/ to check a candidate fix
sys.path.insert(
    0, os.environ.get("PYMOCA_SRC", os.path.join(os.path.dirname(os.path.abspath(__file__)), "src"))
)

import logging  # noqa: E402

logging.getLogger("pymoca").setLevel(logging.ERROR)

import casadi as ca  # noqa: E402
import numpy as np  # noqa: E402

from pymoca import parser  # noqa: E402
from pymoca.backends.casadi import generator  # noqa: E402

FUNCS = [
    "dae_residual_function",
    "initial_residual_function",
    "variable_metadata_function",
    "delay_arguments_function",
]


def build(src, name, opts):
    """Same steps as pymoca.backends.casadi.api._compile_model, from a string."""
    tree = parser.parse(src, bypass_cache=True)
    o = dict(opts)
    o.setdefault("check_balanced", False)
    m = generator.generate(tree, name, o)
    m.simplify(o)
    m._post_checks()
    # Force creation of the four output functions
    fs = [getattr(m, fn) for fn in FUNCS]
    return m, fs


def try_build(src, name, opts):
    try:
        return ("ok",) + build(src, name, opts)
    except Exception as e:  # noqa
        return ("err", "%s: %s" % (type(e).__name__, str(e).splitlines()[0][:160]), None)


def names(m):
    return {
        g: [v.symbol.name() for v in getattr(m, g)]
        for g in ["states", "der_states", "alg_states", "inputs", "constants", "parameters"]
    }


def evaluate(f, seed=0):
    rng = np.random.RandomState(seed)
    args = [ca.DM(rng.uniform(0.5, 2.0, size=f.size_in(i))) for i in range(f.n_in())]
    return [np.array(r) for r in f.call(args)]
