"""C12 / finding 7 (design level): inline_functions=False hides function bodies from the structural
simplification passes: detect_aliases does not find y = idf(x), and resolve_parameter_values leaves
parameter values / bounds as call nodes instead of numbers."""
import sys
import casadi as ca
from repro_common import build, names

SRC = """
function idf
  input Real a;
  output Real y;
algorithm
  y := a;
end idf;
function lin
  input Real a;
  input Real k;
  output Real y;
algorithm
  y := k * a + 1;
end lin;
model M
  Real x(max = lin(p, 4));
  Real y; Real z;
  parameter Real p = 2.0;
  parameter Real r = lin(p, 3);
equation
  y = idf(x);
  z = lin(y, p) + r;
  der(x) = z;
end M;
"""
OPTS = {"detect_aliases": True, "resolve_parameter_values": True}
out = {}
for inl in (True, False):
    m, fs = build(SRC, "M", dict(OPTS, inline_functions=inl))
    r = [v for v in m.parameters if v.symbol.name() == "r"][0]
    out[inl] = (names(m)["alg_states"], str(r.value), str(m.states[0].max))
    print("inline_functions=%s: alg_states=%s r.value=%s x.max=%s" % ((inl,) + out[inl]))
if out[True] != out[False]:
    print("DEFECT: variable list / metadata depend on inline_functions")
    sys.exit(1)
sys.exit(0)
