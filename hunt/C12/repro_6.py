"""C12 / finding 6 (design level): with expand_vectors=True, expand_mx moves _expand_vectors (and an SX
round trip) in front of the elimination passes, so eliminate_constant_assignments removes different
variables: the variable lists differ between expand_mx=False and expand_mx=True."""
import sys
from repro_common import build, names

SRC = """
model M
  Real x[3]; Real y; Real s;
equation
  x[1] = 1.0;
  x[2] = s;
  for i in 3:3 loop
    x[i] = 4.0;
  end for;
  y = 2.0 * 3.0;
  der(s) = x[1] + x[2] + x[3] + y;
end M;
"""
OPTS = {"expand_vectors": True, "eliminate_constant_assignments": True}
n = {}
for emx in (False, True):
    m, fs = build(SRC, "M", dict(OPTS, expand_mx=emx))
    n[emx] = names(m)
    print("expand_mx=%s: alg_states=%s constants=%s" % (emx, n[emx]["alg_states"], n[emx]["constants"]))
if n[True] != n[False]:
    print("DEFECT: variable lists depend on expand_mx")
    sys.exit(1)
sys.exit(0)
