"""C12 / finding 4: with expand_vectors + detect_aliases, expand_mx=False crashes on an equation that
contains no symbols (here a parameter equation after replace_parameter_values; `der(1) = 0` in the
project's own test/models/StateAnnotator.mo does the same), expand_mx=True works."""
import sys
from repro_common import try_build, names

SRC = """
model M
  parameter Real p1 = 2;
  parameter Real p2 = 4;
  Real x[2]; Real y;
equation
  p2 = 2 * p1;
  der(x) = {1, 2} * y;
  y = x[1];
end M;
"""
OPTS = {"expand_vectors": True, "detect_aliases": True, "replace_parameter_values": True}
res = {}
for emx in (False, True):
    res[emx] = try_build(SRC, "M", dict(OPTS, expand_mx=emx))
    print("expand_mx=%s -> %s %s" % (emx, res[emx][0], res[emx][1] if res[emx][0] == "err" else names(res[emx][1])))
if res[True][0] == "ok" and res[False][0] != "ok":
    print("DEFECT: toggling expand_mx turns a working model into a crash")
    sys.exit(1)
sys.exit(0)
