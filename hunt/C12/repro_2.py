"""C12 / finding 2: expand_mx=True + expand_vectors=True crashes on a long expression chain
(sum over a 1200 element vector).  _sx_to_mx recurses once per operation, the RecursionError
is swallowed by `except Exception`, and the fallback appends the *SX* equation to the MX list."""
import sys
from repro_common import try_build

SRC = """
model M
  parameter Integer n = 1200;
  Real x[n]; Real y;
equation
  der(x) = -x;
  y = sum(x);
end M;
"""
res = {}
for emx in (False, True):
    res[emx] = try_build(SRC, "M", {"expand_vectors": True, "expand_mx": emx})
    print("expand_vectors=True expand_mx=%s -> %s %s" % (emx, res[emx][0], res[emx][1] if res[emx][0] == "err" else ""))
if res[False][0] == "ok" and res[True][0] != "ok":
    print("DEFECT: toggling expand_mx turns a working model into a crash")
    sys.exit(1)
sys.exit(0)
