"""C12 / finding 3: expand_mx=True + expand_vectors=True duplicates every shared subexpression
(_sx_to_mx has no memoisation): the size of the residual function and the compile time grow as
2**N for a chain of N dependent statements.  N=14 here (about 1 s); N=18 takes ~20 s and
N>=22 does not finish in minutes, while expand_mx=False is instantaneous."""
import sys
import time
from repro_common import build

SRC = """
function rep
  input Real a;
  output Real s;
algorithm
  s := a;
  for i in 1:14 loop
    s := s * s + s;
  end for;
end rep;
model M
  Real x; Real y; Real z[2];
equation
  der(x) = -x;
  y = rep(x);
  z = {1, 2} * y;
end M;
"""
n = {}
for emx in (False, True):
    t = time.time()
    m, fs = build(SRC, "M", {"expand_vectors": True, "expand_mx": emx})
    n[emx] = fs[0].n_instructions()
    print("expand_mx=%s: dae_residual has %d instructions, built in %.2f s" % (emx, n[emx], time.time() - t))
# Reference: what a plain .expand() of the MX function gives
m, fs = build(SRC, "M", {"expand_vectors": True, "expand_mx": False})
n_ref = fs[0].expand().n_instructions()
print("plain .expand() of the expand_mx=False function: %d instructions" % n_ref)
if n[True] > 20 * n_ref:
    print("DEFECT: expand_mx=True residual is %dx larger than the equivalent SX function "
          "(exponential duplication of shared subexpressions)" % (n[True] // n_ref))
    sys.exit(1)
sys.exit(0)
