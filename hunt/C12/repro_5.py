"""C12 / finding 5: matrix valued parameters / constants (value is a nested list) crash
replace_parameter_values / replace_constant_values, unless expand_vectors AND expand_mx are set
(then the matrices have been scalarised before).  So with expand_vectors=True, toggling expand_mx
decides between a crash and a result."""
import sys
from repro_common import try_build, evaluate

SRC = """
model M
  parameter Real W[2,3] = {{1.0, 2.0, 3.0}, {4.0, 5.0, 6.0}};
  constant Real C[2,2] = {{1.0, 2.0}, {3.0, 4.0}};
  Real x[3]; Real y[2]; Real z[2];
equation
  der(x) = -x;
  y = W * x;
  z = C * y;
end M;
"""
bad = False
for opt in ("replace_parameter_values", "replace_constant_values"):
    res = {}
    for emx in (False, True):
        res[emx] = try_build(SRC, "M", {"expand_vectors": True, opt: True, "expand_mx": emx})
        print("%s expand_vectors=True expand_mx=%s -> %s %s" % (opt, emx, res[emx][0], res[emx][1] if res[emx][0] == "err" else ""))
    if res[True][0] != res[False][0]:
        bad = True
if bad:
    print("DEFECT: toggling expand_mx decides between a crash and a result")
    sys.exit(1)
sys.exit(0)
