"""Shared helpers for the C22 repro scripts (imported by repro_<n>.py)."""
import os
import sys
import shutil
import tempfile
import logging

sys.path.insert(0, os.environ.get("PYMOCA_SRC", "/tmp/hunt_C22/src"))
os.environ["XDG_CACHE_HOME"] = tempfile.mkdtemp(prefix="c22cache")
logging.disable(logging.CRITICAL)

import casadi as ca  # noqa: E402
import numpy as np  # noqa: E402
from pymoca.backends.casadi.api import transfer_model  # noqa: E402

REJECT_MSG = "Delay durations can only depend on"


def compile_model(src, name="M", **options):
    """transfer_model on a one-file model folder.  Returns (model, None) or (None, exception)."""
    d = tempfile.mkdtemp(prefix="c22model")
    try:
        with open(os.path.join(d, name + ".mo"), "w") as f:
            f.write(src)
        opts = {"cache": False}
        opts.update(options)
        try:
            return transfer_model(d, name, opts), None
        except Exception as e:  # noqa: BLE001
            return None, e
    finally:
        shutil.rmtree(d, ignore_errors=True)


def rejected(exc):
    return isinstance(exc, ValueError) and REJECT_MSG in str(exc)


def evaluate(model, values):
    """Evaluate model.delay_arguments_function numerically.

    values maps a symbol name to a number or list (column-major order).
    Returns [(expr ndarray, duration ndarray), ...]."""

    def vec(variables):
        out = []
        for v in variables:
            n = v.symbol.numel()
            a = np.array(values.get(v.symbol.name(), 0.0), dtype=float).ravel(order="F")
            if a.size == 1:
                a = np.full(n, a[0])
            assert a.size == n, (v.symbol.name(), a.size, n)
            out.append(a)
        return ca.DM(np.concatenate(out)) if out else ca.DM.zeros(0, 1)

    f = model.delay_arguments_function
    res = f(
        values.get("time", 0.0),
        vec(model.states),
        vec(model.der_states),
        vec(model.alg_states),
        vec(model.inputs),
        vec(model.constants),
        vec(model.parameters),
    )
    if not isinstance(res, (list, tuple)):
        res = [res]
    res = [np.array(r).ravel(order="F") for r in res]
    return list(zip(res[::2], res[1::2]))
