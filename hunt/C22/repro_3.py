"""C22 / finding 3: a delay() inside a for-loop that runs zero times (size parameter
n = 0) is still recorded as a delay state.  Its DelayArgument keeps the loop-local
placeholder 'x[i]', so the accepted model has a phantom input _pymoca_delay_0 and
delay_arguments_function cannot be built.  Expected: no delay state at all."""
from repro_common import compile_model, evaluate

SRC = """model M
  parameter Integer n = 0;
  Real x[3], y[3];
  Real w, v;
  parameter Real p = 1;
equation
  der(x) = x;
  y = 2 * x;
  der(w) = 1;
  v = delay(w, 2 * p);
  for i in 1:n loop
    y[i] = delay(x[i], p);
  end for;
end M;"""

bad = []
for ev in (False, True):
    m, e = compile_model(SRC, expand_vectors=ev)
    if m is None:
        bad.append("expand_vectors=%s: transfer_model raised %r" % (ev, e))
        continue
    n_states = len(m.delay_states)
    if n_states != 1:
        bad.append("expand_vectors=%s: %d delay states %s, expected 1 (the loop body never runs)"
                   % (ev, n_states, m.delay_states))
    try:
        res = evaluate(m, {"w": 7.0, "p": 1.5})
    except Exception as e:  # noqa: BLE001
        bad.append("expand_vectors=%s: accepted, but delay_arguments_function fails: %s"
                   % (ev, str(e).strip().splitlines()[-1][:160]))
        continue
    got = [(float(a[0]), float(b[0])) for a, b in res]
    if got != [(7.0, 3.0)]:
        bad.append("expand_vectors=%s: got %s expected [(7.0, 3.0)]" % (ev, got))

for b in bad:
    print("DEFECT:", b)
raise SystemExit(1 if bad else 0)
