"""C22 / finding 4: Model._post_checks decides whether an input is fixed with the Python
truth value of Variable.fixed ("if not x.fixed").  For array inputs 'fixed' is a list
(or a DM, or an MX), so
 (a) fixed={false,false,false} is a non-empty list -> truthy -> the input counts as fixed
     and a duration depending on it is ACCEPTED,
 (b) fixed={true,false,true} with a duration on the non-fixed element u[2] is ACCEPTED
     (the same model is rejected with expand_vectors=True),
 (c) fixed=fill(true,3) (a DM) / fixed=b (an MX) make the check itself crash, although
     the duration depends on a parameter only."""
from repro_common import compile_model, rejected

T = "model M Real x,y; parameter Real p=1; parameter Boolean b=true; input Real %s; equation der(x)=x; y = delay(x, %s); end M;"

# (declaration of the input, duration, must the model be rejected?)
CASES = [
    ("u[3](fixed={false,false,false})", "u[2]", True),
    ("u[3](fixed={true,false,true})", "u[2]", True),
    ("u[3](fixed={true,false,true})", "u[3]", False),
    ("u[3](fixed=fill(false,3))", "u[2]", True),
    ("u[3](fixed=fill(true,3))", "u[2]", False),
    ("u[3](fixed=fill(true,3))", "p", False),
    ("u(fixed=b)", "p", False),
    # controls
    ("u[3](each fixed=false)", "u[2]", True),
    ("u[3](each fixed=true)", "u[2]", False),
]

bad = []
for ev in (False, True):
    for decl, dur, must_reject in CASES:
        m, e = compile_model(T % (decl, dur), expand_vectors=ev)
        what = "input Real %s; delay(x, %s); expand_vectors=%s" % (decl, dur, ev)
        if must_reject and not rejected(e):
            bad.append("%s: expected the ValueError, got %s"
                       % (what, "acceptance" if m is not None else repr(e)[:120]))
        if not must_reject and m is None:
            bad.append("%s: expected acceptance, got %s" % (what, repr(e)[:120]))

for b in bad:
    print("DEFECT:", b)
raise SystemExit(1 if bad else 0)
