"""C22 / finding 5: an array of components that each contain a delay() flattens to ONE
vector-valued delay whose duration is a vector as well (s.p, one entry per element).
Model._expand_vectors splits the delayed expression per element, but hands every
element the complete duration vector:  delay state _pymoca_delay_0[1,1] is reported
with duration [s[1].p, s[2].p, s[3].p] instead of s[1].p."""
from repro_common import compile_model, evaluate

SRC = """model S
  Real x, y;
  parameter Real p = 1;
equation
  der(x) = x;
  y = delay(x, p);
end S;
model M
  S s[3](p = {1, 2, 3});
end M;"""

bad = []
# reference: without expand_vectors there is one delay of shape 3 with a duration of shape 3
m, e = compile_model(SRC, expand_vectors=False)
if m is None:
    bad.append("expand_vectors=False: %r" % e)
else:
    res = evaluate(m, {"s.x": [10, 20, 30], "s.p": [1, 2, 3]})
    if [a.tolist() for a in res[0]] != [[10.0, 20.0, 30.0], [1.0, 2.0, 3.0]]:
        bad.append("expand_vectors=False: unexpected %s" % (res,))

m, e = compile_model(SRC, expand_vectors=True)
if m is None:
    bad.append("expand_vectors=True: %r" % e)
else:
    vals = {"s[%d].x" % k: 10.0 * k for k in (1, 2, 3)}
    vals.update({"s[%d].p" % k: float(k) for k in (1, 2, 3)})
    res = evaluate(m, vals)
    for k, (state, (ex, du)) in enumerate(zip(m.delay_states, res), start=1):
        if ex.tolist() != [10.0 * k] or du.tolist() != [float(k)]:
            bad.append("expand_vectors=True: %s -> expression %s, duration %s; expected [%s], [%s]"
                       % (state, ex.tolist(), du.tolist(), 10.0 * k, float(k)))

for b in bad:
    print("DEFECT:", b)
raise SystemExit(1 if bad else 0)
