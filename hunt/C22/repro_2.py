"""C22 / finding 2: with reduce_affine_expression=True an accepted model has no usable
delay-argument function.  Model.delay_arguments_function declares the fresh
states_vector / der_states_vector / alg_states_vector / inputs_vector symbols as its
inputs, but the delay arguments are still written in the original symbols, so CasADi
refuses to build the function (free variables)."""
from repro_common import compile_model, evaluate
import numpy as np

SRC = """model M
  Real x, y;
  parameter Real p = 2;
  input Real u(fixed = true);
equation
  der(x) = -x;
  y = 3 * delay(2 * x, p * u);
end M;"""

bad = []
for opts in ({}, {"reduce_affine_expression": True}):
    m, e = compile_model(SRC, **opts)
    if m is None:
        bad.append("%s: transfer_model raised %r" % (opts, e))
        continue
    try:
        res = evaluate(m, {"x": 10.0, "p": 2.0, "u": 0.5})
    except Exception as e:  # noqa: BLE001
        bad.append("%s: accepted, but delay_arguments_function fails: %s"
                   % (opts, str(e).strip().splitlines()[-1][:160]))
        continue
    got = [(float(a[0]), float(b[0])) for a, b in res]
    if not np.allclose(got, [(20.0, 1.0)]):
        bad.append("%s: got %s expected [(20.0, 1.0)]" % (opts, got))

for b in bad:
    print("DEFECT:", b)
raise SystemExit(1 if bad else 0)
