"""C22 / finding 6 (minor): load_model is meant to strip the false symbolic dependencies
from the durations of a cached model ("Get rid of remaining hidden dependencies in the
delay durations").  Inside the loop it overwrites the list `actual_deps` with a set of
symbols, so from the second delay on the length test compares against the wrong object
and the clean-up is skipped: the duration of the 2nd delay (q) still "depends" on p and u."""
import os
import shutil
import tempfile
from repro_common import transfer_model, ca

SRC = """model M
  Real x, y, z, w;
  parameter Real p = 1, q = 2;
  input Real u(fixed = true);
equation
  der(x) = x;
  y = 2 * delay(x, p);
  z = 3 * delay(x, q);
  w = 4 * delay(x, u);
end M;"""

d = tempfile.mkdtemp(prefix="c22model")
bad = []
try:
    with open(os.path.join(d, "M.mo"), "w") as f:
        f.write(SRC)
    compiled = transfer_model(d, "M", {"cache": True})
    cached = transfer_model(d, "M", {"cache": True})
    assert type(cached).__name__ == "CachedModel", type(cached)
    for k, (a, b) in enumerate(zip(compiled.delay_arguments, cached.delay_arguments)):
        want = sorted(s.name() for s in ca.symvar(ca.MX(a.duration)))
        got = sorted(s.name() for s in ca.symvar(ca.MX(b.duration)))
        if want != got:
            bad.append("delay %d: duration of the cached model has symbols %s, compiled model %s"
                       % (k, got, want))
finally:
    shutil.rmtree(d, ignore_errors=True)

for b in bad:
    print("DEFECT:", b)
raise SystemExit(1 if bad else 0)
