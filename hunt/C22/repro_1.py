"""C22 / finding 1: a delay duration written inside a for-loop in terms of the loop
(an indexed symbol such as p[i], x[i], u[i], or the loop index itself) is never mapped
over the loop.  The loop-local placeholder symbol stays in DelayArgument.duration, so
 (a) state / algebraic / non-fixed-input dependent durations are ACCEPTED, and
 (b) legal parameter dependent durations are accepted but delay_arguments_function
     cannot be built (free variable 'p[i]')."""
from repro_common import compile_model, rejected, evaluate
import numpy as np

bad = []

MUST_REJECT = {
    "state x[i]": "model M Real x[3],y[3]; equation for i in 1:3 loop der(x[i])=1; y[i]=delay(x[i], x[i]); end for; end M;",
    "alg a[i]": "model M Real x[3],y[3],a[3]; equation for i in 1:3 loop der(x[i])=1; a[i]=2*x[i]; y[i]=delay(x[i], a[i]); end for; end M;",
    "non-fixed input u[i]": "model M Real x[3],y[3]; input Real u[3]; equation for i in 1:3 loop der(x[i])=1; y[i]=delay(x[i], u[i]); end for; end M;",
    "state s[i], loop independent expression": "model M Real x,y[3],s[3]; equation der(x)=1; for i in 1:3 loop der(s[i])=1; y[i]=delay(x, s[i]); end for; end M;",
}
for ev in (False, True):
    for name, src in MUST_REJECT.items():
        m, e = compile_model(src, expand_vectors=ev)
        if not rejected(e):
            bad.append("duration depends on %s (expand_vectors=%s): expected ValueError, got %s"
                       % (name, ev, "acceptance" if m is not None else repr(e)))

MUST_WORK = {
    # name: (source, values, expected list of (expr, duration) per scalar element)
    "parameter p[i]": (
        "model M Real x[3],y[3]; parameter Real p[3]={1,2,3}; equation for i in 1:3 loop der(x[i])=1; y[i]=delay(x[i], p[i]); end for; end M;",
        [(10.0, 1.0), (20.0, 2.0), (30.0, 3.0)]),
    "index times parameter i*q": (
        "model M Real x[3],y[3]; parameter Real q=2; equation for i in 1:3 loop der(x[i])=1; y[i]=delay(x[i], i*q); end for; end M;",
        [(10.0, 2.0), (20.0, 4.0), (30.0, 6.0)]),
    "loop index in the delayed expression i*w": (
        "model M Real w,y[3]; parameter Real q=2; equation der(w)=1; for i in 1:3 loop y[i]=delay(i*w, q); end for; end M;",
        [(7.0, 2.0), (14.0, 2.0), (21.0, 2.0)]),
}
for ev in (False, True):
    vals = {"x": [10, 20, 30], "p": [1, 2, 3], "q": 2.0, "w": 7.0}
    if ev:
        vals = {"x[1]": 10, "x[2]": 20, "x[3]": 30, "p[1]": 1, "p[2]": 2, "p[3]": 3, "q": 2.0, "w": 7.0}
    for name, (src, expected) in MUST_WORK.items():
        m, e = compile_model(src, expand_vectors=ev)
        if m is None:
            bad.append("%s (expand_vectors=%s): transfer_model raised %r" % (name, ev, e))
            continue
        try:
            res = evaluate(m, vals)
        except Exception as e:  # noqa: BLE001
            bad.append("%s (expand_vectors=%s): accepted, but delay_arguments_function fails: %s"
                       % (name, ev, str(e).strip().splitlines()[-1][:150]))
            continue
        # flatten to one (expr, duration) pair per scalar delayed element
        flat = []
        for ex, du in res:
            du = np.broadcast_to(du, ex.shape) if du.size in (1, ex.size) else du
            flat.extend(zip(ex.tolist(), np.ravel(du).tolist()))
        if len(flat) != len(expected) or not np.allclose(flat, expected):
            bad.append("%s (expand_vectors=%s): got %s expected %s" % (name, ev, flat, expected))

for b in bad:
    print("DEFECT:", b)
raise SystemExit(1 if bad else 0)
