"""C07, minor: a for-loop index that has the same name as a variable of the instance is renamed to that
variable inside nested instances."""
import sys
from pymoca import parser, tree, ast

TXT = """
model A Real i; Real v[3]; equation i = 5; for i in 1:3 loop v[i] = i; end for; end A;
model M A a; end M;
"""
flat = tree.flatten(parser.parse(TXT), ast.ComponentRef(name="M")).classes["M"]
loop = [e for e in flat.equations if isinstance(e, ast.ForEquation)][0]
eq = loop.equations[0]
idx = eq.left.indices[-1][0]
print("loop index:", loop.indices[0].name, " body: %s[%s] = %s" % (eq.left.name, idx.name, eq.right.name))
if idx.name != loop.indices[0].name or eq.right.name != loop.indices[0].name:
    print("DEFECT: the loop variable i was replaced by the component variable a.i in the loop body")
    sys.exit(1)
sys.exit(0)
