"""Adjacent to C07 (modifications): a nested modification of a component of a component, C c(a(p = 2)),
crashes with IndexError; only the dotted spelling c(a.p = 2) works."""
import sys
from pymoca import parser, tree, ast

TXT = "model A parameter Real p = 1; end A; model C A a; end C; model T C c(a(p = 2)); end T;"
try:
    flat = tree.flatten(parser.parse(TXT), ast.ComponentRef(name="T")).classes["T"]
except IndexError as e:
    print("DEFECT: IndexError while flattening 'C c(a(p = 2))':", str(e).replace("\n", " | "))
    sys.exit(1)
v = flat.symbols["c.a.p"].value.value
print("c.a.p =", v)
sys.exit(0 if v == 2 else 1)
