"""C07 finding 7 (root cause in parser.py): prefixes and array subscripts of a short class definition
and component-clause array subscripts combined with declaration subscripts are dropped silently.
Root cause: parser.py exitClass_spec_base ignores ctx.base_prefix() and the subscripts of the component_reference;
tree.py flatten_symbols copies only ATTRIBUTES + ["type"] from __value; parser.py exitComponent_clause
`s.dimensions = clause.dimensions` overwrites the declaration's own subscripts.  Outside the anchored lines.
Confidence 70% (connector RealInput = input Real is the MSL idiom).
"""
import sys
from pymoca import parser, tree, ast

TXT = """
connector RealInput = input Real;
type DI = discrete Integer;
type V3 = Real[3];
model M
  RealInput u;
  DI d;
  V3 v;
  Real[3] m[2];
end M;
"""
flat = tree.flatten(parser.parse(TXT), ast.ComponentRef(name="M")).classes["M"]
def dims(s):
    return [d.value for l in s.dimensions for d in l if getattr(d, "value", None) is not None]
rc = 0
for name, prefixes, dim in [("u", ["input"], []), ("d", ["discrete"], []), ("v", [], [3]), ("m", [], [2, 3])]:
    s = flat.symbols[name]
    print(name, "prefixes", s.prefixes, "dims", dims(s))
    if s.prefixes != prefixes or dims(s) != dim:
        print("  DEFECT: expected prefixes %s dims %s" % (prefixes, dim))
        rc = 1
sys.exit(rc)
