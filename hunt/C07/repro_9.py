"""Adjacent to C07 (attributes of type aliases): modifications on a component whose type is an alias of
an alias are dropped silently."""
import sys
from pymoca import parser, tree, ast

TXT = "type A = Real(min = 0); type B = A(max = 10); model M B b(start = 1); A a(start = 1); end M;"
flat = tree.flatten(parser.parse(TXT), ast.ComponentRef(name="M")).classes["M"]
for n in ("a", "b"):
    s = flat.symbols[n]
    print(n, "min", s.min.value, "max", s.max.value, "start", s.start.value)
if flat.symbols["b"].start.value != 1:
    print("DEFECT: b(start = 1) was lost (a(start = 1) through a one-level alias is kept)")
    sys.exit(1)
sys.exit(0)
