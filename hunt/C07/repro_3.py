"""C07 finding 3: Class._find_class never searches inherited classes of a (not yet instantiated) class.
Clause: result promised for extends chains + nested class definitions; anchored in the class lookup rules.
Observed ClassNotFoundError (or, if an outer scope has a class of that name, the wrong class).
Root cause: ast.py Class._find_class searches self.classes, imports and self.parent only, never the classes
reachable through self.extends; inherited classes only exist on an InstanceClass after flatten_extends, but
extends-clause lookup, composite names and flatten()'s root.find_class run on raw classes.
Fix sketch (tested; needs a cycle guard for `model A extends A;`): in _find_class, in the first except branch,
    for extends in self.extends:
        base = self._find_class(extends.component, search_inherited=False)
        return base._find_class(component_ref, search_parent=False)      # try/except ClassNotFoundError
Confidence 75%.
"""
import sys
from pymoca import parser, tree, ast

BASE = "model Base model X Real a; equation a = 1; end X; end Base;\n"
CASES = [
    ("nested class extends a class its enclosing class inherits",
     BASE + "model M extends Base; model Y extends X; Real b; equation b = a; end Y; Y y; end M;", "M", ["y.a", "y.b"]),
    ("composite name M.X where X is inherited by M",
     BASE + "model M extends Base; end M; model T M.X x; end T;", "T", ["x.a"]),
    ("flatten nested class M.Y that uses a class inherited by M",
     BASE + "model M extends Base; model Y X x; end Y; end M;", "M.Y", ["x.a"]),
]
rc = 0
for title, txt, name, expect in CASES:
    try:
        flat = tree.flatten(parser.parse(txt), ast.ComponentRef.from_string(name)).classes[name]
        got = list(flat.symbols)
        print("%s: %s" % (title, got))
        if got != expect:
            rc = 1
    except ast.ClassNotFoundError as e:
        print("DEFECT %s: ClassNotFoundError: %s (expected symbols %s)" % (title, e, expect))
        rc = 1
sys.exit(rc)
