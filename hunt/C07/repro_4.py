"""C07 finding 4: nested classes of the flattened class are instantiated in place (their Symbol and
modification objects are shared with the instance), so the result depends on declaration order /
on what was instantiated before.
Clause: every component instantiated once / no stale data: result depends on declaration order.
Observed c.s.p = 1 when C is declared after B, 3 when declared before; expected 3.
Root cause: tree.py build_instance_tree, "Merge/pass along modifications for classes" calls
build_instance_tree(c, sub_class_modification, extended_orig_class) with the RAW nested class c (all other paths
use find_class(copy=True)); flatten_extends shares its Symbol objects and the extends clause's
ClassModificationArguments with the instance, and build_instance_tree mutates them
(arg.value.component = arg.value.component.child[0], arg.scope = ..., sym.type = ..., sym.class_modification = None).
A later `extends B` reads the mutated definition.  Also makes finding 2(a) order dependent.
Fix (tested): pass c.copy_including_children() there.  Confidence 85%.
"""
import sys
from pymoca import parser, tree, ast

HEAD = "model Sub parameter Real p = 1; end Sub;\nmodel Top\n"
A = "  model A Sub s; parameter Real p = 0; end A;\n"
B = "  model B extends A(s.p = 3); end B;\n"
C = "  model C extends B; end C;\n"
TAIL = "  C c;\nend Top;\n"

def value(txt):
    flat = tree.flatten(parser.parse(txt), ast.ComponentRef(name="Top")).classes["Top"]
    return flat.symbols["c.s.p"].value.value

v1 = value(HEAD + C + A + B + TAIL)   # C declared before B
v2 = value(HEAD + A + B + C + TAIL)   # C declared after B (B was instantiated as a nested class first)
print("c.s.p with C declared before B:", v1)
print("c.s.p with C declared after  B:", v2)
if v1 != 3 or v2 != 3:
    print("DEFECT: C extends B extends A(s.p = 3), so c.s.p must be 3 in both orders")
    sys.exit(1)
sys.exit(0)
