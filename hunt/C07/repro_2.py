"""C07 finding 2: the type of an inherited component is looked up in the scope of the extending class
instead of the scope of the base class that declares it.
Clause: one variable per leaf component; extends of a class defined in an enclosing scope; nested classes.
Observed (a) s.i.y instead of s.i.x, (b) ClassNotFoundError 'Inner'.
Root cause: tree.py flatten_extends copies the base's symbols with unresolved type names
(extended_orig_class.symbols.update(c.symbols)); build_instance_tree resolves them with
extended_orig_class.find_class(sym.type), i.e. in the scope of the DERIVED class.  Inherited nested classes are
re-parented to the derived instance the same way (build_instance_tree(c, mods, extended_orig_class)).
Fix sketch (tested for symbols): in flatten_extends after `c = flatten_extends(c, ...)`:
    for sym in c.symbols.values():
        if isinstance(sym.type, ast.ComponentRef) and sym.type.name not in c.classes:
            try: sym.type = c.find_class(sym.type)
            except ast.FoundElementaryClassError: pass
and in build_instance_tree test `isinstance(sym.type, ast.ComponentRef)` instead of `not isinstance(sym.type,
ast.InstanceClass)` (and `ast.Class` in the redeclare fix-up).  Confidence 90%.
"""
import sys
from pymoca import parser, tree, ast

# (a) silent wrong class: Base.i is a P.Inner (variable x); Sub declares its own Inner (variable y)
TXT_A = """
package P
  model Inner Real x; equation x = 1; end Inner;
  model Base Inner i; end Base;
  model Sub
    model Inner Real y; equation y = 2; end Inner;
    extends Base;
  end Sub;
  model Top Sub s; end Top;
end P;
"""
# (b) crash: the base class lives in a package, its component type is a sibling in that package
TXT_B = """
package Lib
  model Inner Real x; equation x = 1; end Inner;
  model Base Inner i; end Base;
end Lib;
model M extends Lib.Base; end M;
"""
rc = 0
flat = tree.flatten(parser.parse(TXT_A), ast.ComponentRef.from_string("P.Top")).classes["P.Top"]
print("(a) flat symbols:", list(flat.symbols))
if list(flat.symbols) != ["s.i.x"]:
    print("DEFECT (a): expected ['s.i.x'] (Base.i : P.Inner), the inherited component was built from Sub.Inner")
    rc = 1
try:
    flat = tree.flatten(parser.parse(TXT_B), ast.ComponentRef(name="M")).classes["M"]
    print("(b) flat symbols:", list(flat.symbols))
    if list(flat.symbols) != ["i.x"]:
        rc = 1
except ast.ClassNotFoundError as e:
    print("DEFECT (b): flattening M raised ClassNotFoundError: %s (expected symbol i.x)" % e)
    rc = 1
sys.exit(rc)
