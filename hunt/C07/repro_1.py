"""C07 finding 1: references inside symbol definitions of nested instances are renamed again at every
ancestor level, so a repeated instance name makes them point at a different variable.
Clause: every reference is renamed to the flat name of the instance variable it denotes (binding equations,
start/min/max expressions, dimensions).
Observed a.a.y = a.a.a.x, expected a.a.y = a.a.x (silent).
Root cause: tree.py flatten_symbols, loop "now resolve all references inside the symbol definitions" runs
flatten_component_refs over ALL symbols of flat_class, also those merged from sub-instances that were renamed one
level below; ComponentRefFlattener.enterComponentRef computes new_name = instance_prefix + tree.name for the
already flat name ("a." + "a.a.x") and renames again when that name exists.
Fix (tested): in enterComponentRef  `if getattr(tree, "_flat", False): return`  before composing the name, and set
`tree._flat = True` where `tree.name = new_name` is assigned.  Confidence 95%.
"""
import sys
from pymoca import parser, tree, ast

TXT = """
model Leaf2 Real x; equation x = 2; end Leaf2;
model Leaf  Leaf2 a; Real x; Real y = x; equation x = 1; end Leaf;
model Mid   Leaf a; end Mid;
model Top   Mid a; end Top;
"""
flat = tree.flatten(parser.parse(TXT), ast.ComponentRef(name="Top")).classes["Top"]
names = list(flat.symbols)
assert names == ["a.a.a.x", "a.a.x", "a.a.y"], names
# Leaf.y = Leaf.x  =>  the binding equation of a.a.y must reference a.a.x
eqs = [(e.left.name, e.right.name) for e in flat.equations
       if isinstance(e.right, ast.ComponentRef) and isinstance(e.left, ast.ComponentRef)]
print("binding equations:", eqs)
bad = [e for e in eqs if e[0] == "a.a.y" and e[1] != "a.a.x"]
if bad:
    print("DEFECT: 'Real y = x' of instance a.a was flattened to %s = %s (expected a.a.y = a.a.x)" % bad[0])
    sys.exit(1)
sys.exit(0)
