"""C07 finding 6 (lower confidence): a base class reached twice through multiple extends (diamond)
contributes its equations twice although its component is instantiated once.
Root cause: tree.py flatten_extends `extended_orig_class.equations += c.equations` (also initial equations and
statements) for every path to the same base; symbols are de-duplicated by the dict, equations are not.
Modelica 3.x 7.1: syntactically equivalent inherited equations are discarded.  Fix: merge each base
(full_reference) once, or skip equal equations.  Confidence 35%.
"""
import sys
from pymoca import parser, tree, ast

TXT = """
model A Real x; equation x = 1; end A;
model B extends A; end B;
model C extends A; end C;
model D extends B; extends C; end D;
"""
flat = tree.flatten(parser.parse(TXT), ast.ComponentRef(name="D")).classes["D"]
print("symbols:", list(flat.symbols), "equations:", len(flat.equations))
if len(flat.symbols) == 1 and len(flat.equations) != 1:
    print("DEFECT: 1 variable but %d copies of 'x = 1'" % len(flat.equations))
    sys.exit(1)
sys.exit(0)
