"""C07 finding 5: every nested class of an instantiated class is instantiated eagerly, even when no
component uses it; a legal model whose unused local class refers back to an enclosing user recurses forever.
Clause: result promised for models with nested class definitions; crash.
Root cause: tree.py build_instance_tree loop `for class_name, c in extended_orig_class.classes.items()` instantiates
every local class (and its components) whether any component uses it or not.
Fix sketch: skip local classes that receive no class modification (the symbol branch instantiates raw classes on
demand); ConstantReferenceApplier then must not assume that `classes` holds only InstanceClasses.  Confidence 55%.
"""
import sys
from pymoca import parser, tree, ast

TXT = """
model Q P p; end Q;
model P
  model N Q q; end N;   // local class, never instantiated inside P
  Real x;
equation
  x = 1;
end P;
"""
sys.setrecursionlimit(3000)
try:
    flat = tree.flatten(parser.parse(TXT), ast.ComponentRef(name="P")).classes["P"]
except RecursionError:
    print("DEFECT: flattening P (one variable x, one equation) raised RecursionError")
    sys.exit(1)
print(list(flat.symbols))
sys.exit(0 if list(flat.symbols) == ["x"] else 1)
