"""
C18 finding 2: a second vector-expansion pass crashes (AttributeError: 'MX' object has no
attribute '_modelica_shape').  It is reached by the `iterative_simplification` option (every
iteration calls _expand_vectors again) and by calling simplify() twice on the same model.
Exit 1 = defect present, 0 = not present.
"""
import os
import sys
import traceback

sys.path.insert(0, os.environ.get("PYMOCA_SRC", "/tmp/hunt_C18/src"))
os.environ.setdefault("XDG_CACHE_HOME", "/tmp/hunt_C18/scratch/cache")

from pymoca import parser  # noqa: E402
from pymoca.backends.casadi import generator as gen  # noqa: E402

TXT = """
model Test
  Real x[2];
  Real y;
  Real d[2];
  output Real o[2];
equation
  der(x) = {1, 2} - x;
  y = x[1];
  d = delay(x, 1.0);
  o = d;
end Test;
"""

EXPECTED = {
    "states": ["x[1]", "x[2]"],
    "der_states": ["der(x[1])", "der(x[2])"],
    "alg_states": ["y", "d[1]", "d[2]", "o[1]", "o[2]"],
    "outputs": ["o[1]", "o[2]"],
}


def names(model):
    r = {g: [v.symbol.name() for v in getattr(model, g)] for g in ("states", "der_states", "alg_states")}
    r["outputs"] = list(model.outputs)
    return r


def reference():
    opts = {"expand_vectors": True}
    m = gen.generate(parser.parse(TXT), "Test", opts)
    m.simplify(opts)
    return m


bad = []
ref = reference()
if names(ref) != EXPECTED:
    bad.append("single pass gives unexpected names: {}".format(names(ref)))
ref_inputs = [v.symbol.name() for v in ref.inputs]
ref_delay = list(ref.delay_states)

for expand_mx in (False, True):
    # (a) iterative simplification
    opts = {"expand_vectors": True, "expand_mx": expand_mx, "iterative_simplification": True}
    try:
        m = gen.generate(parser.parse(TXT), "Test", opts)
        m.simplify(opts)
        if names(m) != EXPECTED or [v.symbol.name() for v in m.inputs] != ref_inputs or m.delay_states != ref_delay:
            bad.append("iterative_simplification, expand_mx={}: names changed: {} inputs {} delay {}".format(
                expand_mx, names(m), [v.symbol.name() for v in m.inputs], m.delay_states))
    except Exception:
        bad.append("iterative_simplification, expand_mx={}: crashed\n{}".format(expand_mx, traceback.format_exc(limit=-1)))

    # (b) simplify() called twice
    opts = {"expand_vectors": True, "expand_mx": expand_mx}
    try:
        m = gen.generate(parser.parse(TXT), "Test", opts)
        m.simplify(opts)
        m.simplify(opts)
        if names(m) != EXPECTED or [v.symbol.name() for v in m.inputs] != ref_inputs or m.delay_states != ref_delay:
            bad.append("simplify twice, expand_mx={}: names changed: {} inputs {} delay {}".format(
                expand_mx, names(m), [v.symbol.name() for v in m.inputs], m.delay_states))
    except Exception:
        bad.append("simplify twice, expand_mx={}: crashed\n{}".format(expand_mx, traceback.format_exc(limit=-1)))

if bad:
    print("DEFECT: vector expansion cannot be applied to an already expanded model")
    for b in bad:
        print(" -", b)
    sys.exit(1)
print("ok")
sys.exit(0)
