"""
C18 finding 3: a 3-D (or higher) array whose attribute is another 3-D symbol (an internal
_MTensor) cannot be expanded: TypeError("Unexpected type from CasADi generator").
Exit 1 = defect present, 0 = not present.
"""
import os
import sys
import traceback

sys.path.insert(0, os.environ.get("PYMOCA_SRC", "/tmp/hunt_C18/src"))
os.environ.setdefault("XDG_CACHE_HOME", "/tmp/hunt_C18/scratch/cache")

import casadi as ca  # noqa: E402
import numpy as np  # noqa: E402

from pymoca import parser  # noqa: E402
from pymoca.backends.casadi import generator as gen  # noqa: E402

TXT = """
model Test
  parameter Real p[2, 2, 2] = {{{1, 2}, {3, 4}}, {{5, 6}, {7, 8}}};
  Real z[2, 2, 2](start=p, each min=0);
end Test;
"""

bad = []
for expand_mx in (False, True):
    try:
        opts = {"expand_vectors": True, "expand_mx": expand_mx}
        m = gen.generate(parser.parse(TXT), "Test", opts)
        m.simplify(opts)
        syms = [p.symbol for p in m.parameters]
        vals = [ca.DM(p.value) for p in m.parameters]
        exp_vals = np.arange(1, 9).reshape(2, 2, 2)
        exp, got = {}, {}
        for ind in np.ndindex(2, 2, 2):
            exp["z[{},{},{}]".format(*(i + 1 for i in ind))] = float(exp_vals[ind])
        for v in m.alg_states:
            s = v.start
            if isinstance(s, ca.MX):
                s = ca.Function("f", syms, [s]).call(vals)[0]
            got[v.symbol.name()] = float(s)
        if got != exp:
            bad.append("expand_mx={}: wrong start values\n   got      {}\n   expected {}".format(expand_mx, got, exp))
    except Exception:
        bad.append("expand_mx={}: crashed\n{}".format(expand_mx, traceback.format_exc(limit=-1)))

if bad:
    print("DEFECT: attribute of a 3-D array that refers to another 3-D array is not expanded")
    for b in bad:
        print(" -", b)
    sys.exit(1)
print("ok")
sys.exit(0)
