"""
Experimental candidate fixes for the C18 findings, applied by monkeypatching (the project
sources are NOT modified).  Usage:

    python candidate_fix.py repro_1.py      # runs the repro with the candidate fixes active

Every repro is expected to exit 0 under the candidate fixes and 1 without them.
"""
import copy
import inspect
import os
import runpy
import sys
import textwrap

sys.path.insert(0, os.environ.get("PYMOCA_SRC", os.path.join(os.path.dirname(os.path.abspath(__file__)), "src")))
os.environ.setdefault("XDG_CACHE_HOME", "/tmp/hunt_C18/scratch/cache")

import casadi as ca  # noqa: E402
import numpy as np  # noqa: E402

from pymoca import ast  # noqa: E402
from pymoca import tree as T  # noqa: E402
from pymoca.backends.casadi import generator as G  # noqa: E402
from pymoca.backends.casadi import model as M  # noqa: E402


def _patch(func, replacements, namespace):
    src = "if True:\n" + inspect.getsource(func)
    for old, new in replacements:
        assert src.count(old) == 1, (func.__name__, old, src.count(old))
        src = src.replace(old, new)
    ns = dict(namespace)
    exec(compile(src, "<patched %s>" % func.__name__, "exec"), ns)
    return ns[func.__name__]


# ---- F1 / F3: attribute element lookup -------------------------------------------------
def _attribute_element(value, ind, iterator_shape, python_type):
    """Element of attribute `value` for the expanded element `ind`.  The value may cover only
    the trailing (innermost) dimensions, when it was declared inside an array of components."""
    if isinstance(value, M._MTensor):
        return value[ind]
    if isinstance(value, ca.MX):
        n = int(np.prod(value.shape))
        if n == 1:
            return value
    elif np.isscalar(value):
        return value
    elif isinstance(value, list):
        depth, v = 0, value
        while isinstance(v, list):
            v, depth = v[0], depth + 1
        val = value
        for i in ind[len(ind) - depth:]:
            val = val[i]
        return val
    elif isinstance(value, np.ndarray):
        val = value[ind[len(ind) - value.ndim:]]
        return python_type(val) if python_type in {float, int} else val
    elif isinstance(value, ca.DM):
        n = int(np.prod(value.shape))
    else:
        raise TypeError("Unexpected type from CasADi generator")
    # MX / DM (always 2-D): find which trailing dimensions the value covers
    k = next(k for k in range(len(ind)) if int(np.prod(iterator_shape[k:])) == n)
    sub = ind[k:]
    val = value[sub] if len(sub) > 1 else value[sub[0]]
    if isinstance(value, ca.DM) and python_type in {float, int}:
        val = python_type(val)
    return val


_src = "if True:\n" + inspect.getsource(M.Model._expand_vectors)
_start = _src.index("                            value = getattr(old_var, attribute)\n")
_end = _src.index("                            setattr(component_var, attribute, val)")
_src = (
    _src[:_start]
    + "                            val = _attribute_element(getattr(old_var, attribute), ind, iterator_shape, old_var.python_type)\n\n"
    + _src[_end:]
)
# ---- F2: a second pass must leave already expanded (scalar) symbols alone -----------------
_old = """                if (
                    set(old_var.symbol._modelica_shape) != {(None,)}
                    or old_var.symbol.name() in self.delay_states
                ):"""
assert _src.count(_old) == 1
_src = _src.replace(
    _old,
    """                _shape = getattr(old_var.symbol, "_modelica_shape", None)
                if _shape is not None and (
                    set(_shape) != {(None,)}
                    or old_var.symbol.name() in self.delay_states
                ):""",
)
_ns = dict(M.__dict__)
_ns["_attribute_element"] = _attribute_element
exec(compile(_src, "<patched _expand_vectors>", "exec"), _ns)
M.Model._expand_vectors = _ns["_expand_vectors"]


# ---- F4: constants referenced through a package path -----------------------------------
def _enterComponentRef(self, tree):
    self.depth += 1
    if self.depth > 1:
        return
    if tree.child:
        try:
            sym = copy.deepcopy(self.classes[-1].find_constant_symbol(tree))
            # one (scalar) dimension entry per leading name part, so that the number of
            # dimension entries matches the number of parts of the flattened name "P.c"
            n_prefix = len(tree.to_tuple()) - 1
            sym.dimensions = [[ast.Primary(value=None)] for _ in range(n_prefix)] + sym.dimensions
            self.extra_symbols[-1][str(tree)] = sym
        except (
            KeyError,
            ast.ClassNotFoundError,
            ast.FoundElementaryClassError,
            ast.ConstantSymbolNotFoundError,
        ):
            pass


T.ConstantReferenceApplier.enterComponentRef = _enterComponentRef

# ---- F5: unspecified dimensions inside an array of components --------------------------
G.Generator.get_symbol = _patch(
    G.Generator.get_symbol,
    [
        (
            "            val_dim_i = -1\n",
            "            n_dims = sum(1 for var_shape in shape for d in var_shape if d is not None)\n"
            "            val_dim_i = len(val_shape) - n_dims - 1\n",
        ),
        (
            "                    val_dim_i += 1\n",
            "                    val_dim_i += 1\n"
            "                    if val_dim_i < 0:\n"
            "                        continue  # dimension of an enclosing component array\n",
        ),
    ],
    G.__dict__,
)

if __name__ == "__main__":
    script = sys.argv[1]
    sys.argv = sys.argv[1:]
    runpy.run_path(script, run_name="__main__")
