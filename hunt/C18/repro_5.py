"""
C18 finding 5 (Modelica shape bookkeeping, Generator.get_symbol): a parameter with an unspecified
dimension ("x[:] = {1,2,3}") inside a component that is instantiated as an array cannot be
generated: the dimensions of the value are compared with the dimensions of the enclosing
component array ("Dimension 1 of definition and value for symbol a.x differs: 2 != 3", or an
IndexError when the sizes happen to coincide).
Exit 1 = defect present, 0 = not present.
"""
import os
import sys
import traceback

sys.path.insert(0, os.environ.get("PYMOCA_SRC", "/tmp/hunt_C18/src"))
os.environ.setdefault("XDG_CACHE_HOME", "/tmp/hunt_C18/scratch/cache")

from pymoca import parser  # noqa: E402
from pymoca.backends.casadi import generator as gen  # noqa: E402

TXT = """
model A
  parameter Real x[:] = {{1, 2, 3}};
end A;
model Test
  A a[{n}];
end Test;
"""

bad = []
for n in (2, 3):
    try:
        opts = {"expand_vectors": True}
        m = gen.generate(parser.parse(TXT.format(n=n)), "Test", opts)
        sym = m.parameters[0].symbol
        if sym.shape != (n, 3) or sym._modelica_shape != ((n,), (3,)):
            bad.append("A a[{}]: a.x has shape {} / {} instead of {} / {}".format(
                n, sym.shape, sym._modelica_shape, (n, 3), ((n,), (3,))))
        # (expanding this model additionally needs finding 1 to be repaired, see repro_1.py)
    except Exception:
        bad.append("A a[{}]: crashed\n{}".format(n, traceback.format_exc(limit=-1)))

if bad:
    print("DEFECT: unspecified dimension inside an array of components")
    for b in bad:
        print(" -", b)
    sys.exit(1)
print("ok")
sys.exit(0)
