"""
C18 finding 4: an array constant that is referenced through a package path (flattened symbol
name "P.c") cannot be expanded: AssertionError in Model._expand_vectors, because the symbol's
_modelica_shape has one entry (for "c") while its name has two dot-separated parts.
Exit 1 = defect present, 0 = not present.
"""
import os
import sys
import traceback

sys.path.insert(0, os.environ.get("PYMOCA_SRC", "/tmp/hunt_C18/src"))
os.environ.setdefault("XDG_CACHE_HOME", "/tmp/hunt_C18/scratch/cache")

import casadi as ca  # noqa: E402
import numpy as np  # noqa: E402

from pymoca import parser  # noqa: E402
from pymoca.backends.casadi import generator as gen  # noqa: E402

TXT = """
package P
  constant Real c[3] = {1, 2, 3};
  package Q
    constant Real D[2, 2] = {{5, 6}, {7, 8}};
  end Q;
end P;
model Test
  Real x[3];
  Real z[2, 2];
equation
  x = 2 * P.c;
  z = P.Q.D;
end Test;
"""

bad = []
for expand_mx in (False, True):
    try:
        opts = {"expand_vectors": True, "expand_mx": expand_mx}
        m = gen.generate(parser.parse(TXT), "Test", opts)
        m.simplify(opts)
        got = {v.symbol.name(): float(v.value) for v in m.constants}
        exp = {"P.c[1]": 1.0, "P.c[2]": 2.0, "P.c[3]": 3.0,
               "P.Q.D[1,1]": 5.0, "P.Q.D[1,2]": 6.0, "P.Q.D[2,1]": 7.0, "P.Q.D[2,2]": 8.0}
        if got != exp:
            bad.append("expand_mx={}: wrong constants {} (expected {})".format(expand_mx, got, exp))
            continue
        # residual must vanish for x = 2*c, z = D
        sol = {"x[1]": 2, "x[2]": 4, "x[3]": 6, "z[1,1]": 5, "z[1,2]": 6, "z[2,1]": 7, "z[2,2]": 8}
        alg = ca.DM([sol[v.symbol.name()] for v in m.alg_states])
        con = ca.DM([got[v.symbol.name()] for v in m.constants])
        r = m.dae_residual_function(0, ca.DM.zeros(0, 1), ca.DM.zeros(0, 1), alg, ca.DM.zeros(0, 1), con, ca.DM.zeros(0, 1))
        if r.numel() != 7 or not np.allclose(np.array(r), 0):
            bad.append("expand_mx={}: residual is {}".format(expand_mx, r))
    except Exception:
        bad.append("expand_mx={}: crashed\n{}".format(expand_mx, traceback.format_exc(limit=-1)))

if bad:
    print("DEFECT: array constants referenced through a package path cannot be expanded")
    for b in bad:
        print(" -", b)
    sys.exit(1)
print("ok")
sys.exit(0)
