"""
C18 finding 1: expand_vectors crashes when an array-valued attribute is declared on an array
that lives inside an array of components (the attribute value only covers the inner dimensions).
Exit 1 = defect present, 0 = not present.
"""
import os
import sys
import traceback

sys.path.insert(0, os.environ.get("PYMOCA_SRC", "/tmp/hunt_C18/src"))
os.environ.setdefault("XDG_CACHE_HOME", "/tmp/hunt_C18/scratch/cache")

import casadi as ca  # noqa: E402
import numpy as np  # noqa: E402

from pymoca import parser  # noqa: E402
from pymoca.backends.casadi import generator as gen  # noqa: E402

CASES = {
    # literal list, innermost dimension only
    "list": (
        """
        model A
          Real x[3](start={1, 2, 3});
        end A;
        model Test
          A a[2];
        end Test;
        """,
        {},
    ),
    # DM value (fill) declared in the component class
    "dm": (
        """
        model A
          Real x[3](start=fill(2.0, 3));
        end A;
        model Test
          A a[2];
        end Test;
        """,
        {},
    ),
    # symbolic value: a top-level parameter vector applied to each component
    "mx": (
        """
        model A
          Real x[3];
        end A;
        model Test
          parameter Real p[3] = {1, 2, 3};
          A a[2](each x(start=p));
        end Test;
        """,
        {},
    ),
    # 2-D table parameter of a component that is instantiated as an array
    "table": (
        """
        model A
          parameter Real T[2, 2] = {{1, 2}, {3, 4}};
        end A;
        model Test
          A a[2];
        end Test;
        """,
        {"attr": "value", "group": "parameters", "fmt": "a[{i}].T[{j},{k}]"},
    ),
}


def evaluate(model, val):
    if isinstance(val, ca.MX):
        syms = [p.symbol for p in model.parameters]
        vals = [ca.DM(p.value) for p in model.parameters]
        f = ca.Function("f", syms, [val])
        return float(f.call(vals)[0])
    return float(val)


bad = []
for case, (txt, how) in CASES.items():
    for expand_mx in (False, True):
        label = "{} (expand_mx={})".format(case, expand_mx)
        try:
            tree = parser.parse(txt)
            opts = {"expand_vectors": True, "expand_mx": expand_mx}
            m = gen.generate(tree, "Test", opts)
            m.simplify(opts)
            if case == "table":
                got = {v.symbol.name(): evaluate(m, v.value) for v in m.parameters}
                exp = {
                    "a[{}].T[{},{}]".format(i, j, k): float([[1, 2], [3, 4]][j - 1][k - 1])
                    for i in (1, 2)
                    for j in (1, 2)
                    for k in (1, 2)
                }
            else:
                got = {v.symbol.name(): evaluate(m, v.start) for v in m.alg_states}
                exp = {
                    "a[{}].x[{}]".format(i, j): (2.0 if case == "dm" else float(j))
                    for i in (1, 2)
                    for j in (1, 2, 3)
                }
            if got != exp:
                bad.append("{}: wrong expanded attributes\n   got      {}\n   expected {}".format(label, got, exp))
        except Exception:
            bad.append("{}: crashed\n{}".format(label, traceback.format_exc(limit=-1)))

if bad:
    print("DEFECT: array attributes of arrays inside component arrays are not carried to the scalars")
    for b in bad:
        print(" -", b)
    sys.exit(1)
print("ok")
sys.exit(0)
