"""C02 finding 2: a first parse() that merely has to WAIT for the database lock treats the
sqlite3.OperationalError('database is locked') from `PRAGMA integrity_check` as corruption and
os.remove()s the healthy cache database that another parse() call is in the middle of using.

Process A: unchanged pymoca.  Its parse() of a large model is paused for 12 s between its
  `INSERT OR REPLACE INTO models` and the following `conn.commit()` (a statement-granularity
  interleaving; the pause is injected by wrapping the Connection class, pymoca is not modified).
  Because the pickled tree is > ~1.9 MB, SQLite's page cache spills during the INSERT and the
  connection holds the EXCLUSIVE file lock from the INSERT until the COMMIT.
Process B: completely unmodified parse() of a small model, same cache folder, first call in
  that process.

Exit 1 if B deleted the database A was using (inode changed / A's entries gone / warning logged).
"""
import multiprocessing as mp, os, sys, sqlite3, tempfile, time, logging, io
from pathlib import Path

HERE = os.path.dirname(os.path.abspath(__file__))
sys.path.insert(0, os.path.join(HERE, "src"))

SMALL_A = "model A Real x; equation der(x) = -x; end A;"
SMALL_B = "model B Real y; equation der(y) = -y; end B;"
# ~2.3 MB of pickled tree (a model with ~3000 ordinary equations pickles to the same size)
BIG = "model Big parameter String s[230] = {%s}; Real x; equation der(x) = -x; end Big;" % ",".join(
    '"%s"' % (("%04d" % i) * 2500) for i in range(230)
)


def proc_a(folder, paused, q):
    from pymoca import parser
    import sqlite3 as real

    state = {"armed": False, "last": ""}

    class Cur(real.Cursor):
        def execute(self, sql, *a):
            state["last"] = sql
            return super().execute(sql, *a)

    class Conn(real.Connection):
        def cursor(self, *a, **k):
            return super().cursor(Cur)

        def commit(self):
            if state["armed"] and state["last"].startswith("INSERT OR REPLACE INTO models"):
                state["armed"] = False
                paused.set()          # A now sits between INSERT and COMMIT
                time.sleep(12)
            return super().commit()

    class Shim:
        def __getattr__(self, n):
            return getattr(real, n)

        def connect(self, *a, **k):
            return real.connect(*a, factory=Conn, **k)

    parser.sqlite3 = Shim()
    try:
        parser.parse(SMALL_A, model_cache_folder=Path(folder))   # initialise + 1 entry
        state["armed"] = True
        t = parser.parse(BIG, model_cache_folder=Path(folder))    # paused before COMMIT
        q.put(("A", "ok" if t is not None else "None"))
    except BaseException as e:
        q.put(("A", "ERR %r" % e))


def proc_b(folder, q):
    from pymoca import parser
    buf = io.StringIO()
    logging.getLogger("pymoca").addHandler(logging.StreamHandler(buf))
    try:
        t = parser.parse(SMALL_B, model_cache_folder=Path(folder))
        q.put(("B", "ok" if t is not None else "None", buf.getvalue()))
    except BaseException as e:
        q.put(("B", "ERR %r" % e, buf.getvalue()))


def main():
    folder = tempfile.mkdtemp()
    db = os.path.join(folder, "model_txt_cache.db")
    paused = mp.Event()
    q = mp.Queue()
    a = mp.Process(target=proc_a, args=(folder, paused, q))
    a.start()
    if not paused.wait(120):
        print("setup failed: A never reached the pause point")
        a.kill()
        return 0
    inode_before = os.stat(db).st_ino
    b = mp.Process(target=proc_b, args=(folder, q))
    b.start()
    b.join()
    a.join()
    res = {}
    for _ in range(2):
        r = q.get()
        res[r[0]] = r[1:]
    inode_after = os.stat(db).st_ino if os.path.exists(db) else None
    c = sqlite3.connect(db)
    try:
        n = c.execute("select count(*) from models").fetchone()[0]
    except sqlite3.Error as e:
        n = repr(e)
    c.close()
    print("A:", res["A"][0], "| B:", res["B"][0])
    print("B log:", res["B"][1].strip())
    print("inode before/after:", inode_before, inode_after, "| rows in models at the end:", n, "(expected 3)")
    bad = []
    if res["A"][0] != "ok" or res["B"][0] != "ok":
        bad.append("a parse() call failed")
    if inode_after != inode_before:
        bad.append("B deleted the database file A was using and created a new one")
    if n != 3:
        bad.append("entries written by A are lost")
    if "corrupt" in res["B"][1]:
        bad.append("B declared a healthy database corrupt")
    if bad:
        print("DEFECT:", "; ".join(bad))
        return 1
    print("no defect observed")
    return 0


if __name__ == "__main__":
    sys.exit(main())
