"""C02 finding 1: two first parse() calls that both find a corrupt cache database race in the
"remove and recreate" branch: the second os.remove() either raises FileNotFoundError or deletes
the *new* database the first call has just created and is using (-> 'disk I/O error' /
'attempt to write a readonly database' in the first call, its entries lost).

pymoca is not modified; the names `sqlite3` and `os` in pymoca.parser are replaced by proxies that
only make each SQL statement / connect / close / os.remove wait for its turn in a fixed schedule
(statement-granularity interleaving of two threads).  Exit 1 if any call fails.
"""
import os as real_os, sys, sqlite3 as real_sqlite3, tempfile, threading, time, logging
from pathlib import Path

HERE = real_os.path.dirname(real_os.path.abspath(__file__))
sys.path.insert(0, real_os.path.join(HERE, "src"))
from pymoca import parser  # noqa: E402

logging.disable(logging.CRITICAL)


class Sched:
    """Grants one gated step at a time, in the order of `schedule` (then lowest thread id first).
    A step that blocks inside SQLite (waiting for a file lock) is left waiting and the other
    thread is allowed to proceed, exactly as the OS would do."""

    def __init__(self, schedule, block_timeout=0.3):
        self.cv = threading.Condition()
        self.waiting, self.running, self.alive = {}, set(), set()
        self.granted = None
        self.schedule = list(schedule)
        self.trace = []
        self.block_timeout = block_timeout

    def tid(self):
        return getattr(threading.current_thread(), "tid", None)

    def gate(self, label):
        t = self.tid()
        if t is None:
            return
        with self.cv:
            self.waiting[t] = label
            self.cv.notify_all()
            while self.granted != t:
                self.cv.wait()
            self.granted = None
            del self.waiting[t]
            self.running.add(t)
            self.trace.append((t, label))

    def done(self):
        t = self.tid()
        if t is None:
            return
        with self.cv:
            self.running.discard(t)
            self.cv.notify_all()

    def finish(self):
        with self.cv:
            self.alive.discard(self.tid())
            self.running.discard(self.tid())
            self.cv.notify_all()

    def loop(self):
        with self.cv:
            while self.alive:
                cands = sorted(t for t in self.alive if t in self.waiting)
                if not cands or any(t not in self.waiting and t not in self.running for t in self.alive):
                    self.cv.wait(0.05)
                    continue
                while self.schedule and self.schedule[0] not in self.alive:
                    self.schedule.pop(0)
                if self.schedule and self.schedule[0] in cands:
                    pick = self.schedule.pop(0)
                elif self.schedule:  # scheduled thread is blocked inside sqlite
                    self.cv.wait(self.block_timeout)
                    if self.schedule[0] not in self.running:
                        continue
                    pick = cands[0]
                else:
                    pick = cands[0]
                self.granted = pick
                self.cv.notify_all()
                t0 = time.time()
                while (self.granted == pick or pick in self.running) and time.time() - t0 < self.block_timeout:
                    self.cv.wait(0.02)


SCHED = None


class GCursor(real_sqlite3.Cursor):
    def execute(self, sql, *a):
        SCHED.gate(" ".join(sql.split())[:50])
        try:
            return super().execute(sql, *a)
        finally:
            SCHED.done()


class GConn(real_sqlite3.Connection):
    def cursor(self, *a, **k):
        return super().cursor(GCursor)

    def commit(self):
        SCHED.gate("COMMIT")
        try:
            return super().commit()
        finally:
            SCHED.done()

    def close(self):
        SCHED.gate("close")
        try:
            return super().close()
        finally:
            SCHED.done()


class SqlShim:
    def __getattr__(self, n):
        return getattr(real_sqlite3, n)

    def connect(self, *a, **k):
        SCHED.gate("connect")
        try:
            return real_sqlite3.connect(*a, factory=GConn, **k)
        finally:
            SCHED.done()


class OsShim:
    def __getattr__(self, n):
        return getattr(real_os, n)

    def remove(self, p):
        SCHED.gate("os.remove")
        try:
            return real_os.remove(p)
        finally:
            SCHED.done()


parser.sqlite3 = SqlShim()
parser.os = OsShim()

TXT = {"A": "model A Real x; equation der(x) = -x; end A;", "B": "model B Real y; equation der(y) = -y; end B;"}


def scenario(name, schedule):
    global SCHED
    if hasattr(parser.parse, "initialized_dbs"):  # behave like a fresh process
        del parser.parse.initialized_dbs
    folder = Path(tempfile.mkdtemp())
    (folder / "model_txt_cache.db").write_bytes(b"this is not a database" * 100)  # as in test_corrupt_cache_file
    SCHED = Sched(schedule)
    results = {}

    def work(tid):
        try:
            tree = parser.parse(TXT[tid], model_cache_folder=folder)
            results[tid] = "ok" if tree is not None and tid in tree.classes else "wrong tree"
        except BaseException as e:  # noqa
            results[tid] = "FAILED with %r" % e
        finally:
            SCHED.finish()

    ths = []
    for tid in "AB":
        th = threading.Thread(target=work, args=(tid,))
        th.tid = tid
        SCHED.alive.add(tid)
        ths.append(th)
    for th in ths:
        th.start()
    SCHED.loop()
    for th in ths:
        th.join()
    c = real_sqlite3.connect(folder / "model_txt_cache.db")
    try:
        rows = c.execute("select count(*) from models").fetchone()[0]
    except real_sqlite3.Error as e:
        rows = repr(e)
    c.close()
    print("--- scenario", name)
    for t, label in SCHED.trace:
        print("    %s  %s" % (t, label))
    print("  results:", results, "| rows in models afterwards:", rows, "(expected 2)")
    return all(v == "ok" for v in results.values()) and rows == 2


def main():
    ok = True
    # both see the corrupt file, A removes it, B's os.remove finds nothing
    ok &= scenario("double remove", "AABBAABB")
    # both see the corrupt file, A removes + recreates + starts the schema transaction,
    # then B removes A's new database and builds its own
    ok &= scenario("remove the other call's new database", "AAABBBAAAABBBBBAABB")
    if not ok:
        print("DEFECT: concurrent parse() calls on a corrupt cache database fail / delete each other's database")
        return 1
    print("no defect observed")
    return 0


if __name__ == "__main__":
    sys.exit(main())
