#!/usr/bin/env python
"""C05 finding 2: the first unqualified-import lookup of a dotted name 'X.Inner' drops the
'.Inner' part (returns class X) but caches 'X -> A.X' in the tree; the second lookup goes
through the cached qualified import, which honours the child, and returns A.X.Inner.
So flattening the SAME class twice on one tree gives two different models."""
import json
import logging
import os
import sys

HERE = os.path.dirname(os.path.abspath(__file__))
sys.path.insert(0, os.environ.get("PYMOCA_SRC", os.path.join(HERE, "src")))

from pymoca import ast, parser, tree  # noqa: E402

logging.disable(logging.CRITICAL)


def fresh_tree(src):
    return parser.parse(src, bypass_cache=True)


def result(t, name):
    """(full json form, short summary) of flatten(t, name); exceptions are a result too."""
    try:
        flat = tree.flatten(t, ast.ComponentRef.from_string(name))
    except Exception as e:  # noqa: BLE001
        s = "EXC %s: %s" % (type(e).__name__, e)
        return s, s
    full = json.dumps(ast.Node.to_json(flat), sort_keys=True, default=str)
    summ = " | ".join(
        "%s{%s}" % (cn, ",".join(c.symbols)) for cn, c in flat.classes.items()
    )
    return full, summ


def compare_sequence(src, seq):
    """Flatten `seq` on ONE tree; compare every step with a fresh parse.  Returns #mismatches."""
    t = fresh_tree(src)
    bad = 0
    hist = []
    for name in seq:
        got, got_s = result(t, name)
        exp, exp_s = result(fresh_tree(src), name)
        hist.append(name)
        if got != exp:
            bad += 1
            print("MISMATCH at step %d of %s" % (len(hist), hist))
            print("    on the shared tree :", got_s)
            print("    from a fresh parse :", exp_s)
    return bad



SRC = """
package A
  model X
    Real a = 1;
    model Inner Real q = 7; end Inner;
  end X;
end A;
package W
  import A.*;
  model M1 X x; end M1;
  model M2 X.Inner y; end M2;
end W;
"""
bad = 0
print("== repeating a class: W.M2, W.M2")
bad += compare_sequence(SRC, ["W.M2", "W.M2"])
print("== a class after another one: W.M1, W.M2")
bad += compare_sequence(SRC, ["W.M1", "W.M2"])
print("mismatches:", bad)
sys.exit(1 if bad else 0)
