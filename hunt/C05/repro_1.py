#!/usr/bin/env python
"""C05 finding 1: the unqualified-import lookup caches the LAST package of the 'import P.*'
list instead of the package the class was found in.  The cache lives in the parsed tree
(Class.imports of the enclosing package), so the first flatten poisons every later one."""
import json
import logging
import os
import sys

HERE = os.path.dirname(os.path.abspath(__file__))
sys.path.insert(0, os.environ.get("PYMOCA_SRC", os.path.join(HERE, "src")))

from pymoca import ast, parser, tree  # noqa: E402

logging.disable(logging.CRITICAL)


def fresh_tree(src):
    return parser.parse(src, bypass_cache=True)


def result(t, name):
    """(full json form, short summary) of flatten(t, name); exceptions are a result too."""
    try:
        flat = tree.flatten(t, ast.ComponentRef.from_string(name))
    except Exception as e:  # noqa: BLE001
        s = "EXC %s: %s" % (type(e).__name__, e)
        return s, s
    full = json.dumps(ast.Node.to_json(flat), sort_keys=True, default=str)
    summ = " | ".join(
        "%s{%s}" % (cn, ",".join(c.symbols)) for cn, c in flat.classes.items()
    )
    return full, summ


def compare_sequence(src, seq):
    """Flatten `seq` on ONE tree; compare every step with a fresh parse.  Returns #mismatches."""
    t = fresh_tree(src)
    bad = 0
    hist = []
    for name in seq:
        got, got_s = result(t, name)
        exp, exp_s = result(fresh_tree(src), name)
        hist.append(name)
        if got != exp:
            bad += 1
            print("MISMATCH at step %d of %s" % (len(hist), hist))
            print("    on the shared tree :", got_s)
            print("    from a fresh parse :", exp_s)
    return bad

import importlib.util
import tempfile


SRC = """
model X Real top = 0; end X;
package A
  model X Real a = 1; end X;
  function f input Real u; output Real y; algorithm y := 2*u; end f;
end A;
package B
  model Y Real b = 2; end Y;
end B;
package W
  import A.*;
  import B.*;
  model M1 X x; end M1;
  model M2 X x2; end M2;
  model F1 Real z; equation z = f(time); end F1;
  model F2 Real w; equation w = f(time); end F2;
end W;
"""
# same library without the top-level X: the poisoned lookup then fails outright
SRC_NO_TOP = SRC.replace("model X Real top = 0; end X;\n", "")

bad = 0
print("== (a) silent wrong class: W.M2 after W.M1 picks the top-level X instead of A.X")
bad += compare_sequence(SRC, ["W.M1", "W.M2", "W.M1"])
print("== (b) crash: W.M2 after W.M1 raises ClassNotFoundError")
bad += compare_sequence(SRC_NO_TOP, ["W.M1", "W.M2"])
print("== (c) silent loss of a pulled function: W.F2 after W.F1 no longer contains A.f")
bad += compare_sequence(SRC_NO_TOP, ["W.F1", "W.F2"])

print("== (d) compiler CLI: exit status alone vs. together")
spec = importlib.util.spec_from_file_location("compiler", os.path.join(HERE, "tools", "compiler.py"))
compiler = importlib.util.module_from_spec(spec)
spec.loader.exec_module(compiler)
with tempfile.TemporaryDirectory() as d:
    os.environ["XDG_CACHE_HOME"] = d
    mo = os.path.join(d, "lib.mo")
    with open(mo, "w") as fh:
        fh.write(SRC_NO_TOP)
    alone1 = compiler.main([mo, "-m", "W.M1"])
    alone2 = compiler.main([mo, "-m", "W.M2"])
    together = compiler.main([mo, "-m", "W.M1", "-m", "W.M2"])
print("    exit status: W.M1 alone=%d, W.M2 alone=%d, both together=%d" % (alone1, alone2, together))
if together != alone1 + alone2:
    bad += 1
    print("MISMATCH: CLI outcome of a model depends on the other requested models")

print("mismatches:", bad)
sys.exit(1 if bad else 0)
