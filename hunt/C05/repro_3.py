#!/usr/bin/env python
"""C05 finding 3: the first unqualified-import lookup resolves 'A.X' with search_imports=False,
the cached entry is resolved later by the qualified-import branch with imports ENABLED.  With a
qualified import whose short name equals the star-imported package ('import Other.A; import A.*;')
the two paths reach different classes: flattening the same class twice differs."""
import json
import logging
import os
import sys

HERE = os.path.dirname(os.path.abspath(__file__))
sys.path.insert(0, os.environ.get("PYMOCA_SRC", os.path.join(HERE, "src")))

from pymoca import ast, parser, tree  # noqa: E402

logging.disable(logging.CRITICAL)


def fresh_tree(src):
    return parser.parse(src, bypass_cache=True)


def result(t, name):
    """(full json form, short summary) of flatten(t, name); exceptions are a result too."""
    try:
        flat = tree.flatten(t, ast.ComponentRef.from_string(name))
    except Exception as e:  # noqa: BLE001
        s = "EXC %s: %s" % (type(e).__name__, e)
        return s, s
    full = json.dumps(ast.Node.to_json(flat), sort_keys=True, default=str)
    summ = " | ".join(
        "%s{%s}" % (cn, ",".join(c.symbols)) for cn, c in flat.classes.items()
    )
    return full, summ


def compare_sequence(src, seq):
    """Flatten `seq` on ONE tree; compare every step with a fresh parse.  Returns #mismatches."""
    t = fresh_tree(src)
    bad = 0
    hist = []
    for name in seq:
        got, got_s = result(t, name)
        exp, exp_s = result(fresh_tree(src), name)
        hist.append(name)
        if got != exp:
            bad += 1
            print("MISMATCH at step %d of %s" % (len(hist), hist))
            print("    on the shared tree :", got_s)
            print("    from a fresh parse :", exp_s)
    return bad



SRC = """
package A
  model X Real a = 1; end X;
end A;
package Other
  package A
    model X Real o = 5; end X;
  end A;
end Other;
package W
  import Other.A;
  import A.*;
  model M1 X x; end M1;
end W;
"""
bad = compare_sequence(SRC, ["W.M1", "W.M1"])
print("mismatches:", bad)
sys.exit(1 if bad else 0)
