"""C26 finding 3: -t casadi does not count files with parse errors; the result for a model
depends on directory listing order and on files that were not requested."""
import os, sys, tempfile
from _repro_common import run, write, GOOD_A, BAD
import pymoca.backends.casadi.api as api

fail = 0

# (a) a syntax-error file given in PATH, but in another directory than the model: not counted
d = tempfile.mkdtemp()
a = write(d, "m/A.mo", GOOD_A)
b = write(d, "other/Zbad.mo", BAD)
rc = run([a, b, "-m", "A", "-t", "casadi"])
rs = run([a, b, "-m", "A", "-t", "sympy", "-o", d])
print("(a) bad file in PATH: casadi", rc, " sympy", rs, " (expected both ('ret', 1))")
fail |= rc != ("ret", 1)

# (b) a syntax-error file that was NOT requested (sub directory of the model's directory) fails the model
d = tempfile.mkdtemp()
a = write(d, "A.mo", GOOD_A)
write(d, "sub/Zbad.mo", BAD)
rc = run([a, "-m", "A", "-t", "casadi"])
rs = run([a, "-m", "A", "-t", "sympy", "-o", d])
print("(b) unrequested bad file: casadi", rc, " sympy", rs, " (expected both ('ret', 0))")
fail |= rc != rs

# (c) same directory, same files: outcome depends on the order os.walk lists the files
d = tempfile.mkdtemp()
write(d, "A.mo", GOOD_A)
write(d, "Zbad.mo", BAD)
real_walk = os.walk
results = {}
for rev in (False, True):
    def walk(top, *args, _rev=rev, **kw):
        for root, dirs, files in real_walk(top, *args, **kw):
            yield root, dirs, sorted(files, reverse=_rev)
    api.os.walk = walk
    try:
        results[rev] = run([d, "-m", "A", "-t", "casadi"])
    finally:
        api.os.walk = real_walk
print("(c) listing order A,Zbad ->", results[False], "; Zbad,A ->", results[True], " (expected equal, nonzero)")
fail |= results[False] != results[True]
sys.exit(1 if fail else 0)
