"""Shared helpers for the C26 repro scripts (compiler CLI exit status)."""
import logging
import os
import sys
import tempfile

SRC = os.environ.get("PYMOCA_SRC", "/repo/src")
sys.path.insert(0, SRC)
sys.path.insert(0, os.path.dirname(os.path.abspath(SRC)))  # for tools/compiler.py
os.environ["XDG_CACHE_HOME"] = tempfile.mkdtemp(prefix="c26cache")  # private parse cache

from tools import compiler  # noqa: E402

logging.disable(logging.CRITICAL)


def run(argv):
    """Return ('ret', n) | ('exit', code) | ('raise', ExcName)."""
    try:
        return ("ret", compiler.main([str(a) for a in argv]))
    except SystemExit as e:
        return ("exit", e.code)
    except BaseException as e:  # noqa
        return ("raise", type(e).__name__)


def write(d, name, txt):
    p = os.path.join(d, name)
    os.makedirs(os.path.dirname(p), exist_ok=True)
    with open(p, "wb") as f:
        f.write(txt.encode("utf-8") if isinstance(txt, str) else txt)
    return p


GOOD_A = "model A Real x; equation der(x) = 1; end A;"
BAD = "model Zbad Real x equation end Zbad;"  # missing ';'
