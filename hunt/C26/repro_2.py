"""C26 finding 2: files that are not Modelica are 'parsed' successfully, exit status 0."""
import sys, tempfile
from _repro_common import run, write

d = tempfile.mkdtemp()
cases = {
    "garbage only": "hello world",
    "keyword typo": "modle A Real x; equation x = 1; end A;",
    "garbage after a class": "model A Real x; equation x = 1; end A; modle B Real y; end B;",
    "illegal character": "model A Real x; equation x = 1 # ; end A;",
    "unterminated comment": "model A Real x; equation x = 1; end A; /* never closed",
}
fail = 0
for i, (name, txt) in enumerate(cases.items()):
    f = write(d, "c%d/A.mo" % i, txt)
    r = run([f])
    print("%-24s -> %s (expected ('ret', 1))" % (name, r))
    fail |= r != ("ret", 1)
sys.exit(1 if fail else 0)
