"""C26 finding 1: a file that is not valid UTF-8 crashes main() instead of being counted."""
import sys, tempfile
from _repro_common import run, write, GOOD_A, BAD

d = tempfile.mkdtemp()
latin = write(d, "a/D.mo", 'model D "caf\xe9" Real x; equation x = 1; end D;'.encode("latin-1"))
bad = write(d, "b/Zbad.mo", BAD)
good = write(d, "c/A.mo", GOOD_A)

fail = 0
r = run([latin])
print("one non-UTF-8 file            ->", r, "(expected ('ret', 1))")
fail |= r != ("ret", 1)
r = run([latin, bad, good])
print("non-UTF-8 + syntax-error file ->", r, "(expected ('ret', 2))")
fail |= r != ("ret", 2)
r = run([latin, good, "-m", "A", "-t", "sympy", "-o", d])
print("same with -t sympy            ->", r, "(expected ('ret', 1))")
fail |= r != ("ret", 1)
sys.exit(1 if fail else 0)
