"""C26 finding 4: -t casadi reports a model as ambiguous when the same file is reached twice."""
import sys, tempfile
from _repro_common import run, write, GOOD_A

d = tempfile.mkdtemp()
a = write(d, "A.mo", GOOD_A)
fail = 0
for name, paths in [("file given twice", [a, a]), ("directory + file in it", [d, a]),
                    ("dir + same dir with ./", [d, d + "/."])]:
    rc = run(paths + ["-m", "A", "-t", "casadi"])
    rs = run(paths + ["-m", "A", "-t", "sympy", "-o", d])
    rf = run(paths + ["-m", "A"])
    print("%-24s casadi %s  sympy %s  flatten %s (expected all ('ret', 0))" % (name, rc, rs, rf))
    fail |= rc != ("ret", 0)
sys.exit(1 if fail else 0)
