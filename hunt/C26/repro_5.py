"""C26 finding 5 (minor): the process exit status wraps modulo 256, 256 errors -> status 0."""
import os, subprocess, sys
SRC = os.environ.get("PYMOCA_SRC", "/repo/src")
tool = os.path.join(os.path.dirname(os.path.abspath(SRC)), "tools", "compiler.py")
env = dict(os.environ, PYTHONPATH=SRC)
args = ["/nonexistent/p%d.mo" % i for i in range(256)]
p = subprocess.run([sys.executable, tool] + args, env=env, stdout=subprocess.DEVNULL, stderr=subprocess.DEVNULL)
print("256 missing paths -> process exit status", p.returncode, "(expected non-zero)")
sys.exit(1 if p.returncode == 0 else 0)
