"""C06 finding 2: the wildcard-import lookup stores the WRONG package in the tree
(self.imports[name] = <last package tried>.name, not the package the class was found in).
Flattening therefore changes the tree, and a second flatten of the same, unedited tree fails
(with two uses of the name even the first flatten fails)."""
import copy
import sys

from pymoca import ast, parser
from pymoca.tree import flatten

SRC = """
package Q
  model X
    Real q;
  end X;
end Q;
package R
  model Y
    Real r;
  end Y;
end R;
package P
  import Q.*;
  import R.*;
  model M
    X x;
  end M;
  model M2
    X x1;
    X x2;
  end M2;
end P;
"""


def symbols(tree, name):
    try:
        flat = flatten(tree, ast.ComponentRef.from_string(name))
    except Exception as e:  # noqa
        return "{}: {}".format(type(e).__name__, e)
    return sorted(flat.classes[name].symbols.keys())


bad = []
t = parser.parse(SRC, bypass_cache=True)
t_copy = copy.deepcopy(t)
imports_before = sorted(t.classes["P"].imports.keys())
first = symbols(t, "P.M")
imports_after = sorted(t.classes["P"].imports.keys())
second = symbols(t, "P.M")
if first != ["x.q"]:
    bad.append("first flatten(P.M) gave {}".format(first))
if second != first:
    bad.append("second flatten(P.M) of the unedited tree gave {!r}, first gave {!r}".format(second, first))
if imports_before != imports_after:
    bad.append("flatten changed P.imports of the tree: {} -> {} (X -> {})".format(
        imports_before, imports_after, t.classes["P"].imports.get("X")))
# the copy taken before is fine once, and broken after its own first flatten
third = symbols(copy.deepcopy(t), "P.M")
if third != ["x.q"]:
    bad.append("flatten(P.M) of a deep copy taken after the first flatten gave {!r}".format(third))
m2 = symbols(t_copy, "P.M2")
if m2 != ["x1.q", "x2.q"]:
    bad.append("first flatten(P.M2) (two components of type X) of a pristine copy gave {!r}".format(m2))

if bad:
    print("DEFECT:")
    for b in bad:
        print("  -", b)
    sys.exit(1)
print("ok")
