"""C06 finding 1: flatten() hands the tree's own constant Symbol objects to the instance tree and
mutates them (name, applied modifications).  Afterwards remove_symbol() on the tree - and on every
deep copy of it - raises KeyError, so the edit cannot be made / is not visible."""
import copy
import sys

from pymoca import ast, parser
from pymoca.tree import flatten

SRC = """
package P
  constant Real c(min=0) = 3;
  constant Real d = 4;
end P;
model M
  Real x;
equation
  x = P.c;
end M;
model A
  M m;
end A;
"""


def symbols(tree, name):
    flat = flatten(tree, ast.ComponentRef.from_string(name))
    return sorted(flat.classes[name].symbols.keys())


bad = []

# reference: the edit works on a tree that was never flattened
ref = parser.parse(SRC, bypass_cache=True)
ref.classes["P"].remove_symbol(ref.classes["P"].symbols["c"])
ref_after = symbols(ref, "P")  # ['d']

t = parser.parse(SRC, bypass_cache=True)
sym = t.classes["P"].symbols["c"]
before = (sym.name, sym.class_modification is None)
symbols(t, "A")  # flatten a model that reaches P.c through a component
after = (sym.name, sym.class_modification is None)
if before != after:
    bad.append("flatten mutated the tree's own symbol P.c: (name, class_modification is None) "
               "{} -> {}".format(before, after))

t2 = copy.deepcopy(t)
for label, tree in (("original", t), ("deep copy", t2)):
    p = tree.classes["P"]
    try:
        p.remove_symbol(p.symbols["c"])
        got = symbols(tree, "P")
        if got != ref_after:
            bad.append("{}: after remove_symbol flatten(P) has {} expected {}".format(label, got, ref_after))
    except KeyError as e:
        bad.append("{}: remove_symbol(P.symbols['c']) raised KeyError({}) after a flatten".format(label, e))

if bad:
    print("DEFECT:")
    for b in bad:
        print("  -", b)
    sys.exit(1)
print("ok")
