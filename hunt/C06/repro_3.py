"""C06 finding 3: the wildcard-import lookup result is cached IN THE TREE (Class.imports) and is
carried over by deepcopy.  After a flatten, removing the class from one imported package and adding
a class of that name to another imported package (on the original or on a deep copy) is not seen by
flatten: the stale entry is used and the lookup fails, while a fresh tree with the same edits works.
(The import order is chosen such that the cached reference is the *correct* one, so this is
independent of finding 2.)"""
import copy
import sys

from pymoca import ast, parser
from pymoca.tree import flatten

SRC = """
package Q
  model X
    Real q;
  end X;
end Q;
package R
  model Y
    Real r;
  end Y;
end R;
package P
  import R.*;
  import Q.*;
  model M
    X x;
  end M;
end P;
"""


def symbols(tree, name):
    try:
        flat = flatten(tree, ast.ComponentRef.from_string(name))
    except Exception as e:  # noqa
        return "{}: {}".format(type(e).__name__, e)
    return sorted(flat.classes[name].symbols.keys())


def edit(tree):
    """move 'X' from package Q to package R, with a different content"""
    q, r = tree.classes["Q"], tree.classes["R"]
    q.remove_class(q.classes["X"])
    new = ast.Class(name="X", type="model")
    new.add_symbol(ast.Symbol(name="newsym", type=ast.ComponentRef(name="Real")))
    r.add_class(new)


bad = []
fresh = parser.parse(SRC, bypass_cache=True)
edit(fresh)
expected = symbols(fresh, "P.M")  # ['x.newsym']
if expected != ["x.newsym"]:
    bad.append("reference run unexpected: {}".format(expected))

t = parser.parse(SRC, bypass_cache=True)
if symbols(t, "P.M") != ["x.q"]:
    bad.append("flatten before edit unexpected")
t2 = copy.deepcopy(t)
t3 = copy.deepcopy(t2)  # copy of a copy
edit(t2)
got2 = symbols(t2, "P.M")
if got2 != expected:
    bad.append("deep copy, edited: flatten(P.M) gave {!r}, expected {!r}".format(got2, expected))
got1 = symbols(t, "P.M")
if got1 != ["x.q"]:
    bad.append("original, not edited: flatten(P.M) gave {!r}".format(got1))
edit(t3)
got3 = symbols(t3, "P.M")
if got3 != expected:
    bad.append("copy of copy, edited: flatten(P.M) gave {!r}, expected {!r}".format(got3, expected))

if bad:
    print("DEFECT:")
    for b in bad:
        print("  -", b)
    sys.exit(1)
print("ok")
