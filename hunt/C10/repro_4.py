"""C10 / F4: StateAnnotator marks every name that occurs textually inside der(...) as a state:
(a) a model variable that is merely shadowed by a for-loop index used in der(x[i]),
(b) a Boolean that is only the condition of an if-expression inside der().
Both are never differentiated, yet become states with a derivative variable (a Boolean one in b)."""
import sys
from _repro_common import gen, where, names

bad = []
m = gen("""
model M
  Real x[2];
  Real i;
equation
  for i in 1:2 loop
    der(x[i]) = 1;
  end for;
  i = 3;
end M;
""", "M")
if where(m, "i") != ["alg_states"]:
    bad.append("(a) i is listed in %r, expected ['alg_states']; der_states=%r" % (where(m, "i"), names(m.der_states)))

m = gen("""
model M
  Real a;
  Real b;
  Boolean flag;
equation
  flag = time > 1;
  der(if flag then a else b) = 1;
  a = 2 * b;
end M;
""", "M")
if where(m, "flag") != ["alg_states"]:
    bad.append("(b) Boolean flag is listed in %r, expected ['alg_states']; der_states=%r"
               % (where(m, "flag"), m.der_states))

for b in bad:
    print(b)
sys.exit(1 if bad else 0)
