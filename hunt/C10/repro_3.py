"""C10 / F3: the prefix of a structured component (parameter/constant/input/output Rec r) and the
base prefix of a short class definition (connector RealInput = input Real) never reach the flat
elementary variables, which all end up as algebraic variables."""
import sys
from _repro_common import gen, where

bad = []
m = gen("""
record Rec
  Real a;
  Real b;
end Rec;
model M
  parameter Rec pr(a = 1, b = 2);
  input Rec ir;
  output Rec orr;
  Real x;
equation
  der(x) = pr.a + ir.a;
  orr.a = x;
  orr.b = ir.b * pr.b;
end M;
""", "M")
for n, want in [("pr.a", ["parameters"]), ("pr.b", ["parameters"]),
                ("ir.a", ["inputs"]), ("ir.b", ["inputs"]),
                ("orr.a", ["alg_states"]), ("orr.b", ["alg_states"])]:
    got = where(m, n)
    if got != want:
        bad.append("record: %s is listed in %r, expected %r" % (n, got, want))
if sorted(m.outputs) != ["orr.a", "orr.b"]:
    bad.append("record: outputs are %r, expected ['orr.a', 'orr.b']" % (m.outputs,))

m = gen("""
connector RealInput = input Real;
connector RealOutput = output Real;
model M
  RealInput u;
  RealOutput y;
  Real x;
equation
  der(x) = u;
  y = x;
end M;
""", "M")
if where(m, "u") != ["inputs"]:
    bad.append("short class: u (RealInput = input Real) is listed in %r, expected ['inputs']" % (where(m, "u"),))
if m.outputs != ["y"]:
    bad.append("short class: outputs are %r, expected ['y']" % (m.outputs,))

for b in bad:
    print(b)
sys.exit(1 if bad else 0)
