"""C10 / F1: a declaration with two type prefixes ('discrete input', 'parameter input', ...) is
classified as a plain algebraic variable, because the parser glues the prefixes together."""
import sys
from _repro_common import gen, where, parser

SRC = """
model M
  discrete input Real u;
  discrete output Real y;
  parameter input Real p = 1;
  constant output Real c = 2;
  Real x;
equation
  der(x) = u + p + c;
  y = x;
end M;
"""
bad = []
tree = parser.parse(SRC, bypass_cache=True)
for n, want in [("u", ["discrete", "input"]), ("y", ["discrete", "output"]),
                ("p", ["parameter", "input"]), ("c", ["constant", "output"])]:
    got = tree.classes["M"].symbols[n].prefixes
    if got != want:
        bad.append("parser: prefixes of %s are %r, expected %r" % (n, got, want))

m = gen(SRC, "M")
for n, want in [("u", ["inputs"]), ("p", ["parameters"]), ("c", ["constants"]), ("y", ["alg_states"])]:
    got = where(m, n)
    if got != want:
        bad.append("model: %s is listed in %r, expected %r" % (n, got, want))
if m.outputs != ["y"]:
    bad.append("model: outputs are %r, expected ['y']" % (m.outputs,))

for b in bad:
    print(b)
sys.exit(1 if bad else 0)
