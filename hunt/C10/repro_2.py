"""C10 / F2: der() of an expression that contains a parameter or constant creates derivative
symbols der(p), der(c) that belong to no category (der of a parameter/constant is 0 in Modelica),
and the parameter symbol is given the 'state' prefix."""
import sys
from _repro_common import gen, unclassified_equation_symbols, names, parser
from pymoca import ast
from pymoca.tree import flatten

SRC = """
model M
  parameter Real p = 2;
  constant Real c = 3;
  Real x;
  Real y;
equation
  der(p * x) = 1;
  y = der(c);
end M;
"""
bad = []
m = gen(SRC, "M")
free = unclassified_equation_symbols(m)
if free:
    bad.append("equations contain symbols that are in no variable list: %r" % (free,))
if names(m.states) != ["x"] or names(m.der_states) != ["der(x)"]:
    bad.append("states/der_states are %r / %r" % (names(m.states), names(m.der_states)))
try:
    m.dae_residual_function
except Exception as e:  # free variables -> CasADi refuses to build the function
    bad.append("dae_residual_function cannot be built: %s" % str(e).splitlines()[-1][:120])

flat = flatten(parser.parse(SRC, bypass_cache=True), ast.ComponentRef(name="M")).classes["M"]
if "state" in flat.symbols["p"].prefixes:
    bad.append("flat parameter p carries prefixes %r" % (flat.symbols["p"].prefixes,))

for b in bad:
    print(b)
sys.exit(1 if bad else 0)
