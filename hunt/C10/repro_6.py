"""C10 / F6 (lower confidence): within a category the variables are sorted by Symbol.order, a
per-parse counter of the *class definition text*, not by declaration order of the flat model.
Members of components are therefore interleaved (s1.x, s2.x, s1.y, s2.y) and hoisted in front of
earlier declared variables of the enclosing model."""
import sys
from _repro_common import gen, names

m = gen("""
model Sub
  Real x;
  Real y;
  parameter Real p = 1;
  parameter Real q = 1;
equation
  der(x) = p;
  der(y) = q;
end Sub;
model M
  Real a;
  parameter Real k = 2;
  Sub s1;
  Sub s2;
  Real b;
equation
  der(a) = k;
  der(b) = 1;
end M;
""", "M")
bad = []
want_states = ["a", "s1.x", "s1.y", "s2.x", "s2.y", "b"]
want_params = ["k", "s1.p", "s1.q", "s2.p", "s2.q"]
if names(m.states) != want_states:
    bad.append("states     %r\n  expected %r" % (names(m.states), want_states))
if names(m.der_states) != ["der(%s)" % n for n in want_states]:
    bad.append("der_states %r" % (names(m.der_states),))
if names(m.parameters) != want_params:
    bad.append("parameters %r\n  expected %r" % (names(m.parameters), want_params))
for b in bad:
    print(b)
sys.exit(1 if bad else 0)
