"""Adjacent to C10 (anchored code generator.get_derivative, case 4): the chain rule tests the
Jacobian sparsity with the index of the *symbol* instead of the column of that symbol, so with a
vector operand the derivative of a later symbol is dropped: der(x[1]*y) loses x[1]*der(y).
The classification itself is intact (y is a state with der(y)), but der(y) is used nowhere."""
import sys
import casadi as ca
from _repro_common import gen

m = gen("""
model M
  Real x[2];
  Real y;
equation
  der(x[1] * y) = 1;
  x[2] = 3;
  y = time;
end M;
""", "M")
sym = {v.symbol.name(): v.symbol for v in m.states + m.der_states}
args = [sym["x"], sym["y"], sym["der(x)"], sym["der(y)"]]
f = ca.Function("f", args, [m.equations[0]], {"allow_free": True})
got = float(f(ca.DM([2, 5]), 3, ca.DM([7, 11]), 13))
want = 7 * 3 + 2 * 13 - 1  # der(x1)*y + x1*der(y) - 1
if abs(got - want) > 1e-9:
    print("residual of der(x[1]*y) = 1 evaluates to %g, expected %g; equation: %s" % (got, want, m.equations[0]))
    sys.exit(1)
sys.exit(0)
