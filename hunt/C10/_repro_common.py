"""Shared helpers for the C10 repro scripts (run with PYTHONPATH=<worktree>/src)."""
import casadi as ca
from pymoca import parser
from pymoca.backends.casadi import generator


def gen(txt, name, **opts):
    # bypass the on-disk parse cache: it is shared between checkouts
    tree = parser.parse(txt, bypass_cache=True)
    return generator.generate(tree, name, opts or None)


def names(lst):
    return [v.symbol.name() if hasattr(v, "symbol") else v.name for v in lst]


def categories(m):
    return {
        k: names(getattr(m, k))
        for k in (
            "constants", "parameters", "inputs", "states", "alg_states",
            "string_constants", "string_parameters",
        )
    }


def where(m, name):
    return [k for k, v in categories(m).items() if name in v]


def unclassified_equation_symbols(m):
    known = {"time"}
    for k in ("constants", "parameters", "inputs", "states", "der_states", "alg_states"):
        known.update(names(getattr(m, k)))
    free = set()
    for e in list(m.equations) + list(m.initial_equations):
        free.update(s.name() for s in ca.symvar(ca.MX(e)))
    return sorted(free - known)
