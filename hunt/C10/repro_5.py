"""C10 / F5: der() of an expression that contains 'time' crashes the generator (AttributeError)
instead of using der(time) = 1."""
import sys
from _repro_common import gen, names

bad = []
for eq in ("der(time * x) = 1", "x = der(2 * time)"):
    try:
        m = gen("model M Real x; equation %s; end M;" % eq, "M")
    except Exception as e:
        bad.append("%s: %s: %s" % (eq, type(e).__name__, e))
        continue
    if "der(time)" in str(m.equations):
        bad.append("%s: equations refer to an unclassified der(time): %s" % (eq, m.equations))

for b in bad:
    print(b)
sys.exit(1 if bad else 0)
