"""C08 / finding 4: expressions of symbol attributes / declaration values that were already
resolved in their own (inner) scope are resolved AGAIN, with a new prefix, at every enclosing
level.  If the re-prefixed name happens to exist, the reference is silently captured by a
variable of another component.  Exit 1 if the defect shows."""
import os
import sys

if not os.environ.get("PYTHONPATH"):
    # default to the worktree this script lives in
    sys.path.insert(0, os.path.join(os.path.dirname(os.path.abspath(__file__)), "src"))
from pymoca import parser, tree, ast  # noqa: E402

SRC = """
model L0
  parameter Real p = 1;
  Real x(start = p);
  Real w = p;
end L0;
model X
  L0 a(p = 100);
end X;
model L1
  X c;
  L0 a;
end L1;
model M
  L1 c;
end M;
"""

flat = tree.flatten(parser.parse(SRC), ast.ComponentRef.from_string("M")).classes["M"]
bad = []
start = str(flat.symbols["c.a.x"].start)
print("c.a.x.start =", start, "(expected c.a.p)")
if start != "c.a.p":
    bad.append("c.a.x.start refers to %s instead of c.a.p" % start)
for eq in flat.equations:
    if isinstance(eq, ast.Equation) and str(eq.left) == "c.a.w":
        print("equation: c.a.w =", eq.right, "(expected c.a.p)")
        if str(eq.right) != "c.a.p":
            bad.append("declaration value of c.a.w refers to %s (=100) instead of c.a.p (=1)" % eq.right)
if bad:
    print("DEFECT:")
    for b in bad:
        print("  -", b)
    sys.exit(1)
print("ok")
