"""C08 / finding 1: a nested attribute modification  a(x(start = p))  loses the scope it
was written in; the dotted spelling  a(x.start = p)  keeps it.  Exit 1 if the defect shows."""
import os
import sys

if not os.environ.get("PYTHONPATH"):
    # default to the worktree this script lives in
    sys.path.insert(0, os.path.join(os.path.dirname(os.path.abspath(__file__)), "src"))
from pymoca import parser, tree, ast  # noqa: E402

SRC = """
model A
  parameter Real p = 1;
  Real x;
end A;
model B
  parameter Real p = 5;
  A a(x.start = 2 * p);      // inner level, dotted
end B;
model M1
  parameter Real p = 9;
  A a(x(start = p));         // nested spelling, p is M1.p
end M1;
model M2
  parameter Real p = 9;
  A a(x.start = p);          // dotted spelling, p is M2.p
end M2;
model M3
  parameter Real p = 9;
  B b(a.x(start = p));       // outermost modification, must win over B's own
end M3;
model M4
  parameter Real p = 9;
  B b(a.x.start = p);
end M4;
"""


def start_of(model, sym):
    flat = tree.flatten(parser.parse(SRC), ast.ComponentRef.from_string(model)).classes[model]
    v = flat.symbols[sym].start
    return str(v) if isinstance(v, ast.ComponentRef) else repr(v)


bad = []
n, d = start_of("M1", "a.x"), start_of("M2", "a.x")
print("M1 nested  a(x(start = p))  -> a.x.start =", n)
print("M2 dotted  a(x.start = p)   -> a.x.start =", d)
if n != d or n != "p":
    bad.append("nested spelling resolves p in the wrong scope: %s (dotted gives %s, expected p)" % (n, d))
n, d = start_of("M3", "b.a.x"), start_of("M4", "b.a.x")
print("M3 nested  b(a.x(start = p)) -> b.a.x.start =", n)
print("M4 dotted  b(a.x.start = p)  -> b.a.x.start =", d)
if n != d or n != "p":
    bad.append("outermost nested modification does not win / differs from dotted: %s vs %s (expected p)" % (n, d))
if bad:
    print("DEFECT:")
    for b in bad:
        print("  -", b)
    sys.exit(1)
print("ok")
