"""C08 / finding 3: for a type that is derived from an elementary type in two or more steps
(type T = Real(..); type T2 = T(..);) the modifications written on the component, on an
enclosing component and on a third-level type definition are silently dropped.
Exit 1 if the defect shows."""
import os
import sys

if not os.environ.get("PYTHONPATH"):
    # default to the worktree this script lives in
    sys.path.insert(0, os.path.join(os.path.dirname(os.path.abspath(__file__)), "src"))
from pymoca import parser, tree, ast  # noqa: E402

SRC = """
type T  = Real(min = 0);
type T2 = T;
type T3 = T2(max = 5);
model A
  T  u(nominal = 20);
  T2 y(nominal = 20, start = 1);
  T3 z;
end A;
model M
  A a(y(min = -1), y.max = 7);
end M;
"""


def val(v):
    if isinstance(v, ast.Primary):
        return v.value
    if isinstance(v, ast.Expression) and v.operator == "-":
        return -v.operands[0].value
    return v


flat = tree.flatten(parser.parse(SRC), ast.ComponentRef.from_string("M")).classes["M"]
expect = {
    ("a.u", "nominal"): 20,  # one derivation step: works
    ("a.u", "min"): 0,
    ("a.y", "nominal"): 20,  # declaration modification
    ("a.y", "start"): 1,
    ("a.y", "min"): -1,  # enclosing component, nested
    ("a.y", "max"): 7,  # enclosing component, dotted
    ("a.z", "max"): 5,  # from 'type T3 = T2(max = 5)'
    ("a.z", "min"): 0,
}
bad = []
for (sym, attr), e in expect.items():
    g = val(getattr(flat.symbols[sym], attr))
    print("%s.%s = %r (expected %r)" % (sym, attr, g, e))
    if g != e:
        bad.append("%s.%s is %r, expected %r" % (sym, attr, g, e))
if bad:
    print("DEFECT:")
    for b in bad:
        print("  -", b)
    sys.exit(1)
print("ok")
