"""C08 / finding 2: a nested modification of a class-typed component that arrives through a
modification environment (extends clause or enclosing component) crashes with IndexError,
while the dotted spelling of the same modification works.  Exit 1 if the defect shows."""
import os
import sys

if not os.environ.get("PYTHONPATH"):
    # default to the worktree this script lives in
    sys.path.insert(0, os.path.join(os.path.dirname(os.path.abspath(__file__)), "src"))
from pymoca import parser, tree, ast  # noqa: E402

SRC = """
model A
  parameter Real p = 1;
  Real x;
end A;
model B
  A a;
end B;
model E_nested  extends B(a(p = 2));  end E_nested;
model E_dotted  extends B(a.p = 2);   end E_dotted;
model M_nested  B b(a(p = 3));        end M_nested;
model M_dotted  B b(a.p = 3);         end M_dotted;
model N_nested  B b(a(x(start = 4))); end N_nested;
model N_dotted  B b(a.x.start = 4);   end N_dotted;
"""


def get(model, sym, attr):
    flat = tree.flatten(parser.parse(SRC), ast.ComponentRef.from_string(model)).classes[model]
    return getattr(flat.symbols[sym], attr).value


bad = []
for nested, dotted, sym, attr in [
    ("E_nested", "E_dotted", "a.p", "value"),
    ("M_nested", "M_dotted", "b.a.p", "value"),
    ("N_nested", "N_dotted", "b.a.x", "start"),
]:
    d = get(dotted, sym, attr)
    try:
        n = get(nested, sym, attr)
    except IndexError as e:
        n = "IndexError: %s" % str(e).replace("\n", " ")
    print("%s: %s.%s = %r   |   %s: %r" % (dotted, sym, attr, d, nested, n))
    if n != d:
        bad.append("%s gives %r but the equivalent %s gives %r" % (nested, n, dotted, d))
if bad:
    print("DEFECT:")
    for b in bad:
        print("  -", b)
    sys.exit(1)
print("ok")
