"""C20 finding 1: changing the 'library_folders' option does not invalidate the cache."""
from _repro_common import *  # noqa: F401,F403

d = tempfile.mkdtemp(prefix="c20_r1_")
mf, l1, l2 = (os.path.join(d, x) for x in ("m", "lib_v1", "lib_v2"))
old = os.stat(d).st_mtime_ns - 10**12  # every source is (much) older than any cache
write(os.path.join(mf, "M.mo"),
      "model M\n  Lib.C c;\n  Real x;\nequation\n  der(x) = c.k * x;\nend M;\n", old)
write(os.path.join(l1, "Lib.mo"),
      "package Lib\n model C\n  parameter Real k = 1; Real y;\n equation\n  y = 2*k;\n end C;\nend Lib;\n", old)
write(os.path.join(l2, "Lib.mo"),
      "package Lib\n model C\n  parameter Real k = 1; Real y; Real z;\n equation\n  y = 3*k; z = y;\n end C;\nend Lib;\n", old)

bad = 0
for mode in ("cache",):
    transfer_model(mf, "M", {mode: True, "library_folders": [l1]})       # compile + save
    opts = {mode: True, "library_folders": [l2]}                          # option change
    got = transfer_model(mf, "M", opts)
    ref = fresh(mf, "M", opts)
    if sig(got) != sig(ref):
        bad = 1
        print("STALE CACHE after changing library_folders (%s):" % mode)
        print("  transfer_model ->", type(got).__name__, sig(got))
        print("  fresh compile  ->", sig(ref))
if not bad:
    print("ok: library_folders change was honoured")
sys.exit(bad)
