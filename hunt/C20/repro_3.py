"""C20 finding 3: codegen caching crashes for a package-qualified model name ('P.M')."""
from _repro_common import *  # noqa: F401,F403

d = tempfile.mkdtemp(prefix="c20_r3_")
mf = os.path.join(d, "m")
write(os.path.join(mf, "P.mo"),
      "package P\n model M\n  Real x;\n  parameter Real k = 1;\n equation\n  der(x) = 2 * k * x;\n end M;\nend P;\n")
opts = {"codegen": True}
ref = fresh(mf, "P.M", opts)
try:
    got1 = transfer_model(mf, "P.M", opts)
    got2 = transfer_model(mf, "P.M", opts)
except Exception as e:  # noqa: BLE001
    print("CRASH in transfer_model(codegen) for model name 'P.M': %s: %s" % (type(e).__name__, str(e)[:200]))
    print("  files left in the model folder:", sorted(os.listdir(mf)))
    sys.exit(1)
if sig(got1) != sig(ref) or sig(got2) != sig(ref) or not isinstance(got2, CachedModel):
    print("wrong model", sig(got1), sig(got2), sig(ref))
    sys.exit(1)
print("ok")
sys.exit(0)
