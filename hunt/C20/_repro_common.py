"""Shared helpers for the C20 repro scripts (model cache staleness)."""
import os
import sys
import tempfile

SRC = os.environ.get("PYMOCA_SRC", "/repo/src")
sys.path.insert(0, SRC)
# private parse cache, so that runs against different checkouts do not interact
os.environ["XDG_CACHE_HOME"] = tempfile.mkdtemp(prefix="c20_xdg_")

import logging  # noqa: E402

import casadi as ca  # noqa: E402
import numpy as np  # noqa: E402

from pymoca.backends.casadi.api import CachedModel, _compile_model, transfer_model  # noqa: E402,F401
from pymoca.backends.casadi._options import _merge_default_options  # noqa: E402

logging.getLogger("pymoca").setLevel(logging.ERROR)


def write(path, text, mtime_ns=None):
    os.makedirs(os.path.dirname(path), exist_ok=True)
    with open(path, "w") as f:
        f.write(text)
    if mtime_ns is not None:
        os.utime(path, ns=(int(mtime_ns), int(mtime_ns)))


def fresh(folder, name, opts):
    """Compile the current sources with the current options, no caching involved."""
    o = _merge_default_options(dict(opts))
    if o["cache"] and not o["codegen"]:
        o["expand_mx"] = True
    return _compile_model(folder, name, o)


def sig(model, seed=1):
    """Variable names per category + DAE residual evaluated at a fixed random point."""
    rng = np.random.RandomState(seed)
    f = model.dae_residual_function
    args = [rng.rand(*f.size_in(i)) + 0.5 for i in range(f.n_in())]
    out = [np.array(ca.DM(r)).ravel().round(9).tolist() for r in f.call(args)]
    names = {
        k: [v.symbol.name() for v in getattr(model, k)]
        for k in ["states", "der_states", "alg_states", "inputs", "parameters", "constants"]
    }
    return names, out
