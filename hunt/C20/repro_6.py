"""C20 finding 6: save_model overwrites the codegen libraries that the existing, still
valid cache file refers to BEFORE the new cache file is written.  When the save does not
complete (here: the 4th function cannot be built for option set B; an interrupted C
compile has the same effect) the old cache file survives and is later accepted for
option set A - but it now loads option set B's libraries."""
from _repro_common import *  # noqa: F401,F403

d = tempfile.mkdtemp(prefix="c20_r6_")
mf = os.path.join(d, "m")
write(os.path.join(mf, "Delay.mo"),
      "model Delay\n  Real x, y, z;\n  parameter Real hour = 3600;\nequation\n"
      "  y = delay(x, 6 * hour);\n  z = delay(x, 3600.0);\nend Delay;\n",
      os.stat(d).st_mtime_ns - 10**12)
A = {"codegen": True}
B = {"codegen": True, "reduce_affine_expression": True, "expand_vectors": True, "detect_aliases": True}

transfer_model(mf, "Delay", A)                       # compile + save with options A
try:
    transfer_model(mf, "Delay", B)                   # option change -> recompile
    print("note: option set B compiled and saved without error; scenario not triggered")
except Exception as e:  # noqa: BLE001
    print("transfer_model with options B raised %s (as expected for this scenario)" % type(e).__name__)

got = transfer_model(mf, "Delay", A)                 # back to options A
ref = fresh(mf, "Delay", A)
if sig(got) != sig(ref):
    print("WRONG MODEL returned from the cache for options A:")
    print("  transfer_model ->", type(got).__name__, sig(got)[1])
    print("  fresh compile  ->", sig(ref)[1])
    sys.exit(1)
print("ok")
sys.exit(0)
