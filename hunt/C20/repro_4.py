"""C20 finding 4: a valid cache cannot be loaded when the model has a non-scalar
parameter next to other parameters (NaN probe vector has one entry per parameter
instead of one per scalar element)."""
from _repro_common import *  # noqa: F401,F403

d = tempfile.mkdtemp(prefix="c20_r4_")
mf = os.path.join(d, "m")
write(os.path.join(mf, "M.mo"),
      "model M\n  parameter Real p[3] = {1, 2, 3};\n  parameter Real q = 4;\n  Real x(max = q);\n"
      "equation\n  der(x) = q * x + p[2];\nend M;\n")
bad = 0
for mode in ("cache", "codegen"):
    opts = {mode: True}
    ref = fresh(mf, "M", opts)
    transfer_model(mf, "M", opts)                 # compile + save: fine
    try:
        got = transfer_model(mf, "M", opts)       # load
    except Exception as e:  # noqa: BLE001
        bad = 1
        print("CRASH loading an up-to-date %s cache: %s: %s" % (mode, type(e).__name__, " ".join(str(e).split())[:230]))
        continue
    if sig(got) != sig(ref):
        bad = 1
        print("wrong model", sig(got), sig(ref))
if not bad:
    print("ok")
sys.exit(bad)
