"""C20 finding 2: codegen libraries are re-written under the same file name, so a
process that still holds a model loaded from the previous libraries gets the OLD
code back from dlopen() after the sources were edited and recompiled."""
from _repro_common import *  # noqa: F401,F403

d = tempfile.mkdtemp(prefix="c20_r2_")
mf = os.path.join(d, "m")
p = os.path.join(mf, "M.mo")
SRC_A = "model M\n  Real x;\n  parameter Real k = 1;\nequation\n  der(x) = 2 * k * x;\nend M;\n"
SRC_B = SRC_A.replace("2 * k", "5 * k")
write(p, SRC_A, os.stat(d).st_mtime_ns - 10**12)
opts = {"codegen": True}
cache = os.path.join(mf, "M.pymoca_cache")

m1 = transfer_model(mf, "M", opts)          # miss: compile, write libs + cache
m2 = transfer_model(mf, "M", opts)          # hit: dlopen()s M_dae_residual.so ...; m2 is kept alive
assert isinstance(m2, CachedModel)

t = os.stat(cache).st_mtime_ns + 10**9
write(p, SRC_B, t)                          # edit, strictly later than the cache
m3 = transfer_model(mf, "M", opts)          # miss: recompiles, overwrites the .so files
assert not isinstance(m3, CachedModel)
# make sure the new cache is newer than the edit (it is anyway when compiling takes > 1 s)
if os.stat(cache).st_mtime_ns <= t:
    os.utime(cache, ns=(t + 10**9, t + 10**9))

m4 = transfer_model(mf, "M", opts)          # hit
ref = fresh(mf, "M", opts)
if sig(m4) != sig(ref):
    print("STALE CODE loaded from the codegen cache:")
    print("  transfer_model ->", type(m4).__name__, sig(m4)[1], "(== old source:", sig(m4) == sig(m2), ")")
    print("  fresh compile  ->", sig(ref)[1])
    sys.exit(1)
print("ok")
sys.exit(0)
