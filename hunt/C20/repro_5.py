"""C20 finding 5: modification times are compared as floats; an edit that is strictly
later than the cache by less than the float resolution (~240 ns today) is missed."""
from _repro_common import *  # noqa: F401,F403

d = tempfile.mkdtemp(prefix="c20_r5_")
mf = os.path.join(d, "m")
p = os.path.join(mf, "M.mo")
SRC_A = "model M\n  Real x;\nequation\n  der(x) = 2 * x;\nend M;\n"
write(p, SRC_A, os.stat(d).st_mtime_ns - 10**12)
opts = {"cache": True}
transfer_model(mf, "M", opts)
cache = os.path.join(mf, "M.pymoca_cache")
T = 1_700_000_000_000_000_000
os.utime(cache, ns=(T, T))
write(p, SRC_A.replace("2 * x", "7 * x"), T + 100)      # 100 ns later than the cache
st_c, st_p = os.stat(cache).st_mtime_ns, os.stat(p).st_mtime_ns
if not st_p > st_c:
    print("skip: file system does not store nanosecond time stamps (%d vs %d)" % (st_p, st_c))
    sys.exit(0)
got = transfer_model(mf, "M", opts)
ref = fresh(mf, "M", opts)
if sig(got) != sig(ref):
    print("STALE CACHE: source mtime_ns %d > cache mtime_ns %d, but the cache was used" % (st_p, st_c))
    print("  transfer_model ->", type(got).__name__, sig(got)[1], " fresh ->", sig(ref)[1])
    sys.exit(1)
print("ok")
sys.exit(0)
