"""C01 finding 2: lexical errors are not counted as syntax errors; characters are dropped, tree returned and cached.

(1) Clause: same two as finding 1.
(2) Input: "model A Real x#; end A;", 'model A Real x; end A; "unterminated', "... x = 1 $; ...".
(3) Observed: "token recognition error" on stderr but a Tree for A is returned and stored.  Expected None, no row.
(4) Root cause: parser.py:_parse `parser.addErrorListener(listener)` - the ModelicaParserErrorListener is attached to the
    parser only; the lexer keeps the default ConsoleErrorListener, so listener.error never sees lexer errors.
    Aggravating: Modelica.g4:540 `COMMENT : ('/' '/' .*? '\n' | ...)` needs a newline, so a VALID file ending in
    "// model B end B;" without final newline loses the two '/' and the comment is parsed as code (class B in tree).
(5) Fix:
             lexer = ModelicaLexer(input_stream)
        +    listener = ModelicaParserErrorListener()
        +    lexer.addErrorListener(listener)
             ...
        -    listener = ModelicaParserErrorListener()
             parser.addErrorListener(listener)
    plus grammar: line comment as '//' ~[\r\n]* ; optionally skip a leading U+FEFF (today "accepted" only because the
    lexer error is ignored).
(6) Confidence: high.
"""
import pathlib, sqlite3, sys, tempfile
from pymoca import parser

broken = [
    "model A Real x#; end A;",
    "model A Real x; equation x = 1 $; end A;",
    "model A Real x; equation x = `1; end A;",
    'model A Real x; end A; "unterminated',
]
d = pathlib.Path(tempfile.mkdtemp())
bad = []
for t in broken:
    u = parser.parse(t, bypass_cache=True)
    c1 = parser.parse(t, model_cache_folder=d)
    c2 = parser.parse(t, model_cache_folder=d)
    if u is not None or c1 is not None or c2 is not None:
        bad.append((t, u, c1))
rows = sqlite3.connect(d / parser.DEFAULT_MODEL_CACHE_DB).execute("SELECT count(*) FROM models").fetchone()[0]
if bad or rows:
    for t, u, c1 in bad:
        print("text with lexical error %r -> uncached %s, cached %s (expected None)"
              % (t, None if u is None else list(u.classes), None if c1 is None else list(c1.classes)))
    print("rows stored in the cache for failed parses: %d (expected 0)" % rows)
    sys.exit(1)
sys.exit(0)
