"""C01 finding 1: text after the last complete class is ignored -> broken text yields a tree, which is cached.

(1) Clause: "returns no tree exactly when the text has a syntax error"; "A failed parse is never stored or served".
(2) Input: ") ) )", "equation", "model A Real x; end A; garbage here )(".
(3) Observed: parse() (cached and bypass_cache=True) returns a Tree (classes [] resp. ['A']); one row per text is
    inserted into `models` and later served.  Expected: None, no row.
(4) Root cause: parser.py:_parse, `parse_tree = parser.stored_definition()` + start rule Modelica.g4:8-11
    `stored_definition : (WITHIN ...)? (stored_definition_class)* ;` has no EOF.  ANTLR leaves the (...)* loop at the
    first token that cannot start a class and stops without reporting an error, so `if listener.error:` is false.
(5) Fix in _parse (no grammar regeneration needed):
        -    if listener.error:
        +    if listener.error or stream.LA(1) != antlr4.Token.EOF:
                 return None
    (or add EOF to the rule and regenerate).  Verified on a copy of _parse: all 66 test/models/**/*.mo keep their
    verdict.  Combine with the COMMENT fix of finding 2, else a file ending in "// c" without newline becomes an error.
(6) Confidence: high.
"""
import pathlib, sqlite3, sys, tempfile
from pymoca import parser

broken = [
    "model A Real x; end A; garbage here )(",
    ") ) )",
    "equation",
    "model A Real x; end A; end",
]
d = pathlib.Path(tempfile.mkdtemp())
bad = []
for t in broken:
    u = parser.parse(t, bypass_cache=True)
    c1 = parser.parse(t, model_cache_folder=d)
    c2 = parser.parse(t, model_cache_folder=d)
    if u is not None or c1 is not None or c2 is not None:
        bad.append((t, u, c1, c2))
rows = sqlite3.connect(d / parser.DEFAULT_MODEL_CACHE_DB).execute("SELECT count(*) FROM models").fetchone()[0]
if bad or rows:
    for t, u, c1, c2 in bad:
        print("syntax-error text %r -> uncached classes %s, cached classes %s (expected None)"
              % (t, None if u is None else list(u.classes), None if c1 is None else list(c1.classes)))
    print("rows stored in the cache for failed parses: %d (expected 0)" % rows)
    sys.exit(1)
sys.exit(0)
