"""C01 finding 3: damaged cache entries still make parse() raise (or return a non-tree), permanently.

(1) Clause: "holds whatever happened to the cache folder before: ... entries that no longer unpickle" / "corruption of
    an entry".
(2) Input: fill the cache, then damage the row: ONE byte inside a pickled string ('O' of OrderedDict -> 0x94), protocol
    byte \x80\x04 -> \x80\x09 (= entry written by a Python with a newer default protocol), data=NULL, last_hit=NULL,
    data=pickle.dumps(42).
(3) Observed: UnicodeDecodeError, ValueError (unsupported pickle protocol), OverflowError/MemoryError, TypeError escape
    from parse(); with pickle.dumps(42) the int 42 is returned as "tree".  The row is never repaired, each hit refreshes
    last_hit so it is never pruned: every later call fails again.  Random 1-byte/truncation fuzzing of a real entry:
    ~19% of failures are of a type outside the tuple (UnicodeDecodeError 14%, TypeError 2%, ValueError 1.3%,
    MemoryError 1.2%, OverflowError 0.3%).  Expected: warning, fresh parse, entry replaced.
(4) Root cause: parser.py:parse lines 1077-1080
    `except (pickle.UnpicklingError, AttributeError, EOFError, ImportError, IndexError):` is a closed list (pickle docs:
    "including (but not necessarily limited to)").  Line 1066 `if always_update_last_hit or last_hit < yesterday:`
    compares an unvalidated column with an int outside any try; nothing checks isinstance(tree, ast.Tree).
(5) Fix:
        -        if always_update_last_hit or last_hit < yesterday:
        +        if always_update_last_hit or not isinstance(last_hit, int) or last_hit < yesterday:
                 try:
                     tree = pickle.loads(pickled_data)
        -        except (pickle.UnpicklingError, AttributeError, EOFError, ImportError, IndexError):
        +            if not isinstance(tree, ast.Tree):
        +                raise TypeError("cache entry is not a Tree")
        +        except Exception:
        +            tree = None
                     logger.warning(...)
    (the existing INSERT OR REPLACE then repairs the row).
(6) Confidence: high for the exception list (same bug as the earlier fix, incompletely fixed); medium for
    last_hit NULL / non-Tree payload.
"""
import importlib, pathlib, pickle, sqlite3, sys, tempfile
import pymoca.parser as P

TEXT = "model A Real x(start=1); parameter Real p=2; equation der(x) = -p*x; end A;"
ref = P.parse(TEXT, bypass_cache=True)
good = pickle.dumps(ref)

def flip_utf8(blob):
    # one damaged byte inside a pickled string: 'OrderedDict' -> invalid utf-8
    i = blob.index(b"OrderedDict")
    return blob[:i] + b"\x94" + blob[i + 1:]

damages = {
    "one byte of a string damaged (UnicodeDecodeError)": ("data", flip_utf8(good)),
    "protocol byte damaged / written by newer Python (ValueError)": ("data", b"\x80\x09" + good[2:]),
    "length field damaged (OverflowError/MemoryError)": ("data", good[:2] + b"\x8e" + b"\xff" * 8 + good[2:]),
    "data column NULL (TypeError)": ("data", None),
    "last_hit column NULL (TypeError before unpickling)": ("last_hit", None),
    "blob is a valid pickle of something else": ("data", pickle.dumps(42)),
}
bad = []
for name, (col, val) in damages.items():
    d = pathlib.Path(tempfile.mkdtemp())
    P = importlib.reload(P)
    P.parse(TEXT, model_cache_folder=d)                      # fill the cache
    c = sqlite3.connect(d / P.DEFAULT_MODEL_CACHE_DB)
    c.execute("UPDATE models SET %s = ?" % col, (val,))
    c.commit(); c.close()
    P = importlib.reload(P)                                  # "new process"
    for attempt in (1, 2):
        try:
            r = P.parse(TEXT, model_cache_folder=d)
            if not isinstance(r, P.ast.Tree) or list(r.classes) != ["A"]:
                bad.append("%s: attempt %d returned %r instead of the tree" % (name, attempt, r))
        except Exception as e:
            bad.append("%s: attempt %d raised %s: %s" % (name, attempt, type(e).__name__, str(e)[:70]))
if bad:
    print("\n".join(bad))
    sys.exit(1)
sys.exit(0)
