"""C01 finding 4: parseable text crashes only when the cache is on - RecursionError in pickle.dumps.

(1) Clause: "parse() with caching enabled returns a tree structurally identical to an uncached parse".
(2) Input: "model A Real x; equation x = " + " + ".join(["1"]*298) + "; end A;" (left-deep expression with 298..977
    operands, default recursion limit 1000, CPython 3.12); also ~400 chained `if .. else if ..`.
(3) Observed: bypass_cache=True -> Tree; cached -> RecursionError from pickle.dumps(tree); the sqlite connection is not
    closed.  Uncached parsing itself only fails from 978 operands on.
(4) Root cause: parser.py:parse line 1095 `pickled_data = pickle.dumps(tree)` is unguarded (the try at 1087-1091 covers
    _parse only); pickling needs ~3 frames per expression level.
(5) Fix:
                 if tree is not None:
        -            pickled_data = pickle.dumps(tree)
        +            try:
        +                pickled_data = pickle.dumps(tree)
        +            except (RecursionError, pickle.PicklingError):
        +                logger.warning("Model could not be pickled, not caching")
        +                conn.close()
        +                return tree
    (RecursionError in pickle.loads is covered by the `except Exception` of finding 3.)
(6) Confidence: high (generated Modelica with sums of a few hundred terms is common).
"""
import pathlib, sys, tempfile
from pymoca import parser

d = pathlib.Path(tempfile.mkdtemp())
bad = []
for n in (300, 500, 900):
    t = "model A Real x; equation x = " + " + ".join(["1"] * n) + "; end A;"
    u = parser.parse(t, bypass_cache=True)
    assert u is not None
    try:
        c = parser.parse(t, model_cache_folder=d)
        if c is None:
            bad.append("n=%d: cached parse returned None" % n)
    except RecursionError as e:
        bad.append("sum of %d terms: uncached parse returns a tree, cached parse raises RecursionError (%s)" % (n, e))
if bad:
    print("\n".join(bad))
    sys.exit(1)
sys.exit(0)
