"""C01 finding 6 (minor): parse.initialized_dbs is keyed by the unresolved path.

(1) Clause: a fresh / never-checked cache folder must still give a tree (initialisation is skipped for a DB never checked).
(2) Input: parse(t, model_cache_folder=Path("cache")); os.chdir(other); same call again.
(3) Observed: sqlite3.OperationalError: no such table: models.  Expected a tree.
(4) Root cause: parser.py:parse `full_db_path = db_folder / cache_db` is the key of parse.initialized_dbs (line 1010)
    without .resolve().
(5) Fix: full_db_path = (db_folder / cache_db).resolve()
(6) Confidence: medium-low (root cause differs from the recorded "sqlite errors after initialisation escape", same symptom).
"""
import os, pathlib, sys, tempfile
from pymoca import parser

t = "model A Real x; end A;"
a, b = tempfile.mkdtemp(), tempfile.mkdtemp()
rel = pathlib.Path("cache")
os.chdir(a)
assert parser.parse(t, model_cache_folder=rel) is not None
os.chdir(b)
try:
    r = parser.parse(t, model_cache_folder=rel)
except Exception as e:
    print("second working directory, fresh cache folder: %s: %s (expected a tree)" % (type(e).__name__, e))
    sys.exit(1)
sys.exit(0 if r is not None else 1)
