"""C01 finding 5 (minor): lone surrogates - cached path raises UnicodeEncodeError, uncached returns a tree.

(1) Clause: cached == uncached "for any Modelica text".
(2) Input: 'model A "caf\udce9" Real x; end A;' (what open(..., errors="surrogateescape") yields for a latin-1 file).
(3) Observed: uncached -> Tree; cached -> UnicodeEncodeError.
(4) Root cause: parser.py:_calculate_txt_hash `hasher.update(txt.encode("utf-8"))`.
(5) Fix: txt.encode("utf-8", "surrogatepass").
(6) Confidence: low-medium.
"""
import pathlib, sys, tempfile
from pymoca import parser

t = 'model A "caf\udce9" Real x; end A;'
u = parser.parse(t, bypass_cache=True)
try:
    c = parser.parse(t, model_cache_folder=pathlib.Path(tempfile.mkdtemp()))
except UnicodeEncodeError as e:
    print("uncached: %s; cached raises UnicodeEncodeError: %s" % ("tree" if u is not None else None, e))
    sys.exit(1)
sys.exit(0 if (u is None) == (c is None) else 1)
