"""C11 / finding 2: generator.py ForLoop.__init__ builds the index values with
np.arange(start, stop + step, step): whenever (stop - start) is not a multiple of step the loop
runs one iteration too many; start/step are read with `.value`, so a parameter or an expression
(e.g. `k:n`, `n-1:n`, a negative step) crashes with AttributeError.
The range is put into the AST directly (start=1, step=2, stop=4), so this script does not depend on
how the parser assigns the three parts of a:b:c (see finding 1)."""
import sys
import numpy as np
import casadi as ca
from pymoca import parser
from pymoca.backends.casadi import generator


def parse(src):
    tree = parser.parse(src, bypass_cache=True)
    if tree is None:
        raise RuntimeError("parse failed")
    return tree


def build(src, name="M", options=None, tree_hook=None):
    tree = parse(src)
    if tree_hook is not None:
        tree_hook(tree)
    return generator.generate(tree, name, options)


def _vec(variables, vals):
    out = []
    for v in variables:
        a = np.array(vals[v.symbol.name()], dtype=float)
        if a.ndim == 2:
            a = a.flatten(order="F")  # CasADi is column major
        a = np.atleast_1d(a)
        assert a.size == v.symbol.size1() * v.symbol.size2(), v.symbol.name()
        out.extend(a.tolist())
    return ca.DM(out)


def resid(model, vals, t=0.0, initial=False):
    f = model.initial_residual_function if initial else model.dae_residual_function
    groups = (model.states, model.der_states, model.alg_states, model.inputs,
              model.constants, model.parameters)
    r = f(t, *[_vec(g, vals) for g in groups])
    return np.array(r).flatten()


def check(label, got, expected, failures):
    got = np.asarray(got, dtype=float).flatten()
    expected = np.asarray(expected, dtype=float).flatten()
    ok = got.shape == expected.shape and np.allclose(got, expected)
    print("{}: {}\n    observed residual {}\n    expected residual {}".format(
        "ok  " if ok else "FAIL", label, got.tolist(), expected.tolist()))
    if not ok:
        failures.append(label)


# ---------------------------------------------------------------- test
fails = []
from pymoca import ast


def set_range(start, step, stop):
    def hook(tree):
        eq = tree.classes["M"].equations[0]
        assert isinstance(eq, ast.ForEquation)
        eq.indices[0].expression = ast.Slice(
            start=ast.Primary(value=start), step=ast.Primary(value=step), stop=ast.Primary(value=stop))
    return hook


SRC = """
model M
  Real x[9];
equation
  for i in 1:1 loop
    x[i] = 10 * i;
  end for;
end M;
"""
X = dict(x=[1, 2, 3, 4, 5, 6, 7, 8, 9])

# start=1, step=2, stop=4  ->  Modelica 1:2:4 = {1, 3}
m = build(SRC, tree_hook=set_range(1, 2, 4))
check("range start=1 step=2 stop=4 iterates {1,3}", resid(m, X), [1 - 10, 3 - 30], fails)
# start=2, step=3, stop=6  ->  {2, 5}
m = build(SRC, tree_hook=set_range(2, 3, 6))
check("range start=2 step=3 stop=6 iterates {2,5}", resid(m, X), [2 - 20, 5 - 50], fails)
# exact multiple still fine: 1:2:5 -> {1,3,5}
m = build(SRC, tree_hook=set_range(1, 2, 5))
check("range start=1 step=2 stop=5 iterates {1,3,5}", resid(m, X), [-9, -27, -45], fails)

# start given by a parameter / an expression
for rng, exp in (("k:n", [2 - 20, 3 - 30]), ("n-1:n", [2 - 20, 3 - 30])):
    label = "for i in %s (k=2, n=3)" % rng
    try:
        m = build("""
model M
  parameter Integer k = 2; parameter Integer n = 3;
  Real x[3];
equation
  for i in %s loop
    x[i] = 10 * i;
  end for;
end M;
""" % rng)
        check(label, resid(m, dict(x=[1, 2, 3], k=2, n=3)), exp, fails)
    except Exception as e:  # noqa
        print("FAIL: {}\n    raised {}: {}".format(label, type(e).__name__, e))
        fails.append(label)

sys.exit(1 if fails else 0)
