"""C11 / finding 9: generator.py get_derivative, case 3 (der of an indexed symbol) re-applies
CasADi's internal nonzero slice as a Python slice.  For the last row of a matrix the internal stop
lies past the end (A[2,:] of a 2x3 matrix -> Slice(1, 7, 2)) and indexing der(A) raises."""
import sys
import numpy as np
import casadi as ca
from pymoca import parser
from pymoca.backends.casadi import generator


def parse(src):
    tree = parser.parse(src, bypass_cache=True)
    if tree is None:
        raise RuntimeError("parse failed")
    return tree


def build(src, name="M", options=None, tree_hook=None):
    tree = parse(src)
    if tree_hook is not None:
        tree_hook(tree)
    return generator.generate(tree, name, options)


def _vec(variables, vals):
    out = []
    for v in variables:
        a = np.array(vals[v.symbol.name()], dtype=float)
        if a.ndim == 2:
            a = a.flatten(order="F")  # CasADi is column major
        a = np.atleast_1d(a)
        assert a.size == v.symbol.size1() * v.symbol.size2(), v.symbol.name()
        out.extend(a.tolist())
    return ca.DM(out)


def resid(model, vals, t=0.0, initial=False):
    f = model.initial_residual_function if initial else model.dae_residual_function
    groups = (model.states, model.der_states, model.alg_states, model.inputs,
              model.constants, model.parameters)
    r = f(t, *[_vec(g, vals) for g in groups])
    return np.array(r).flatten()


def check(label, got, expected, failures):
    got = np.asarray(got, dtype=float).flatten()
    expected = np.asarray(expected, dtype=float).flatten()
    ok = got.shape == expected.shape and np.allclose(got, expected)
    print("{}: {}\n    observed residual {}\n    expected residual {}".format(
        "ok  " if ok else "FAIL", label, got.tolist(), expected.tolist()))
    if not ok:
        failures.append(label)


# ---------------------------------------------------------------- test
fails = []
label = "der(A[2,:]) = {1,2,3}; der(A[1,:]) = {4,5,6}"
try:
    m = build("""
model M
  Real A[2,3];
equation
  der(A[2,:]) = {1, 2, 3};
  der(A[1,:]) = {4, 5, 6};
end M;
""")
    pt = {"A": [[1, 2, 3], [4, 5, 6]], "der(A)": [[10, 20, 30], [40, 50, 60]]}
    check(label, resid(m, pt), [39, 48, 57, 6, 15, 24], fails)
except Exception as e:  # noqa
    print("FAIL: {}\n    raised {}: {}".format(label, type(e).__name__, str(e).splitlines()[0]))
    fails.append(label)
sys.exit(1 if fails else 0)
