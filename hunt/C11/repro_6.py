"""C11 / finding 6: tree.py add_variable_value_statements APPENDS the declaration assignment of a
function variable (`output Real s = 0;`) to the end of the algorithm, so it is executed last and
overwrites whatever the algorithm computed (Modelica initialises before the algorithm runs)."""
import sys
import numpy as np
import casadi as ca
from pymoca import parser
from pymoca.backends.casadi import generator


def parse(src):
    tree = parser.parse(src, bypass_cache=True)
    if tree is None:
        raise RuntimeError("parse failed")
    return tree


def build(src, name="M", options=None, tree_hook=None):
    tree = parse(src)
    if tree_hook is not None:
        tree_hook(tree)
    return generator.generate(tree, name, options)


def _vec(variables, vals):
    out = []
    for v in variables:
        a = np.array(vals[v.symbol.name()], dtype=float)
        if a.ndim == 2:
            a = a.flatten(order="F")  # CasADi is column major
        a = np.atleast_1d(a)
        assert a.size == v.symbol.size1() * v.symbol.size2(), v.symbol.name()
        out.extend(a.tolist())
    return ca.DM(out)


def resid(model, vals, t=0.0, initial=False):
    f = model.initial_residual_function if initial else model.dae_residual_function
    groups = (model.states, model.der_states, model.alg_states, model.inputs,
              model.constants, model.parameters)
    r = f(t, *[_vec(g, vals) for g in groups])
    return np.array(r).flatten()


def check(label, got, expected, failures):
    got = np.asarray(got, dtype=float).flatten()
    expected = np.asarray(expected, dtype=float).flatten()
    ok = got.shape == expected.shape and np.allclose(got, expected)
    print("{}: {}\n    observed residual {}\n    expected residual {}".format(
        "ok  " if ok else "FAIL", label, got.tolist(), expected.tolist()))
    if not ok:
        failures.append(label)


# ---------------------------------------------------------------- test
fails = []

m = build("""
function f
  input Real a[3];
  output Real s = 0;
algorithm
  for i in 1:3 loop
    s := s + a[i];
  end for;
end f;
model M
  Real x[3]; Real y;
equation
  y = f(x);
end M;
""")
check("output Real s = 0; for ... s := s + a[i]", resid(m, dict(x=[1, 2, 3], y=0)), [-6], fails)

m = build("""
function f
  input Real a;
  output Real b = 5;
algorithm
  b := b + a;
end f;
model M
  Real x; Real y;
equation
  y = f(x);
end M;
""")
check("output Real b = 5; b := b + a", resid(m, dict(x=3, y=0)), [-8], fails)

sys.exit(1 if fails else 0)
