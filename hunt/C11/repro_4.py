"""C11 / finding 4: generator.py get_derivative, case 4 (der() of an expression).  The Jacobian is
taken w.r.t. vertcat(*symvar(s)), but its sparsity is tested with has_nz(0, j) where j is the index
of the j-th SYMBOL, not the column range of that symbol, and only row 0 is looked at.  As soon as a
dependency is a vector the wrong columns are tested and product-rule terms are silently dropped."""
import sys
import numpy as np
import casadi as ca
from pymoca import parser
from pymoca.backends.casadi import generator


def parse(src):
    tree = parser.parse(src, bypass_cache=True)
    if tree is None:
        raise RuntimeError("parse failed")
    return tree


def build(src, name="M", options=None, tree_hook=None):
    tree = parse(src)
    if tree_hook is not None:
        tree_hook(tree)
    return generator.generate(tree, name, options)


def _vec(variables, vals):
    out = []
    for v in variables:
        a = np.array(vals[v.symbol.name()], dtype=float)
        if a.ndim == 2:
            a = a.flatten(order="F")  # CasADi is column major
        a = np.atleast_1d(a)
        assert a.size == v.symbol.size1() * v.symbol.size2(), v.symbol.name()
        out.extend(a.tolist())
    return ca.DM(out)


def resid(model, vals, t=0.0, initial=False):
    f = model.initial_residual_function if initial else model.dae_residual_function
    groups = (model.states, model.der_states, model.alg_states, model.inputs,
              model.constants, model.parameters)
    r = f(t, *[_vec(g, vals) for g in groups])
    return np.array(r).flatten()


def check(label, got, expected, failures):
    got = np.asarray(got, dtype=float).flatten()
    expected = np.asarray(expected, dtype=float).flatten()
    ok = got.shape == expected.shape and np.allclose(got, expected)
    print("{}: {}\n    observed residual {}\n    expected residual {}".format(
        "ok  " if ok else "FAIL", label, got.tolist(), expected.tolist()))
    if not ok:
        failures.append(label)


# ---------------------------------------------------------------- test
fails = []

# der(x[3]*y) = der(x[3])*y + x[3]*der(y)
m = build("""
model M
  Real x[3]; Real y;
equation
  der(x[3] * y) = 0;
  der(x[1]) = 0;
  der(x[2]) = 0;
  der(y) = 1;
end M;
""")
pt = {"x": [1, 2, 3], "y": 5, "der(x)": [10, 20, 30], "der(y)": 50}
check("der(x[3]*y) = 0", resid(m, pt)[:1], [30 * 5 + 3 * 50], fails)

# der(x .* y) = der(x).*y + x.*der(y)
m = build("""
model M
  Real x[2]; Real y[2];
equation
  der(x .* y) = {0, 0};
  der(x) = {1, 1};
end M;
""")
pt = {"x": [1, 2], "y": [5, 6], "der(x)": [10, 20], "der(y)": [50, 60]}
check("der(x .* y) = {0,0}", resid(m, pt)[:2], [10 * 5 + 1 * 50, 20 * 6 + 2 * 60], fails)

# scalar control: works
m = build("""
model M
  Real x; Real y;
equation
  der(x * y) = 0;
  der(x) = 1;
end M;
""")
pt = {"x": 2, "y": 5, "der(x)": 10, "der(y)": 50}
check("der(x*y) = 0 (scalars, control)", resid(m, pt)[:1], [10 * 5 + 2 * 50], fails)

sys.exit(1 if fails else 0)
