"""C11 / finding 3: generator.py exitIfStatement does not execute the branches of an if-statement
in a function; it regroups the assignments per left-hand variable and get_function then applies
the merged assignments one after the other.  Consequences: (a) the condition is re-evaluated with
values that an earlier assignment of the SAME if-statement already changed, (b) a variable that is
assigned twice in a branch, or (c) read across branches in a different order, gets a wrong value."""
import sys
import numpy as np
import casadi as ca
from pymoca import parser
from pymoca.backends.casadi import generator


def parse(src):
    tree = parser.parse(src, bypass_cache=True)
    if tree is None:
        raise RuntimeError("parse failed")
    return tree


def build(src, name="M", options=None, tree_hook=None):
    tree = parse(src)
    if tree_hook is not None:
        tree_hook(tree)
    return generator.generate(tree, name, options)


def _vec(variables, vals):
    out = []
    for v in variables:
        a = np.array(vals[v.symbol.name()], dtype=float)
        if a.ndim == 2:
            a = a.flatten(order="F")  # CasADi is column major
        a = np.atleast_1d(a)
        assert a.size == v.symbol.size1() * v.symbol.size2(), v.symbol.name()
        out.extend(a.tolist())
    return ca.DM(out)


def resid(model, vals, t=0.0, initial=False):
    f = model.initial_residual_function if initial else model.dae_residual_function
    groups = (model.states, model.der_states, model.alg_states, model.inputs,
              model.constants, model.parameters)
    r = f(t, *[_vec(g, vals) for g in groups])
    return np.array(r).flatten()


def check(label, got, expected, failures):
    got = np.asarray(got, dtype=float).flatten()
    expected = np.asarray(expected, dtype=float).flatten()
    ok = got.shape == expected.shape and np.allclose(got, expected)
    print("{}: {}\n    observed residual {}\n    expected residual {}".format(
        "ok  " if ok else "FAIL", label, got.tolist(), expected.tolist()))
    if not ok:
        failures.append(label)


# ---------------------------------------------------------------- test
fails = []


def run(label, func, npts_expected):
    src = func + """
model M
  Real x; Real y; Real z;
equation
  (y, z) = f(x);
end M;
"""
    try:
        m = build(src)
        for x, (b, c) in npts_expected:
            check("%s, x=%g" % (label, x), resid(m, dict(x=x, y=0, z=0)), [-b, -c], fails)
    except Exception as e:  # noqa
        print("FAIL: {}\n    raised {}: {}".format(label, type(e).__name__, e))
        fails.append(label)


# (a) condition must be evaluated once, before the branch runs
run("(a) branch changes a variable used in the condition", """
function f
  input Real a;
  output Real b;
  output Real c;
protected
  Real t;
algorithm
  t := a;
  if t > 0 then
    t := -1;
    b := 1;
  else
    t := 1;
    b := 2;
  end if;
  c := t;
end f;
""", [(3.0, (1, -1)), (-3.0, (2, 1))])

# (b) same variable assigned twice in each branch
run("(b) variable assigned twice per branch", """
function f
  input Real a;
  output Real b;
  output Real c;
algorithm
  b := 0;
  c := 0;
  if a > 0 then
    b := 1;
    b := b + 1;
  else
    b := 2;
    b := b + 2;
  end if;
end f;
""", [(3.0, (2, 0)), (-3.0, (4, 0))])

# (c) branches assign the same variables in a different order
run("(c) branches assign in different order", """
function f
  input Real a;
  output Real b;
  output Real c;
algorithm
  b := 10;
  c := 20;
  if a > 0 then
    b := 1;
    c := b;
  else
    c := 3;
    b := c;
  end if;
end f;
""", [(3.0, (1, 1)), (-3.0, (3, 3))])

sys.exit(1 if fails else 0)
