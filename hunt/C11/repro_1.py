"""C11 / finding 1: a stepped range a:b:c is read as start:STOP:STEP instead of Modelica's
start:STEP:stop (parser.py exitSimple_expression), so slices and for-loops pick the wrong elements."""
import sys
import numpy as np
import casadi as ca
from pymoca import parser
from pymoca.backends.casadi import generator


def parse(src):
    tree = parser.parse(src, bypass_cache=True)
    if tree is None:
        raise RuntimeError("parse failed")
    return tree


def build(src, name="M", options=None, tree_hook=None):
    tree = parse(src)
    if tree_hook is not None:
        tree_hook(tree)
    return generator.generate(tree, name, options)


def _vec(variables, vals):
    out = []
    for v in variables:
        a = np.array(vals[v.symbol.name()], dtype=float)
        if a.ndim == 2:
            a = a.flatten(order="F")  # CasADi is column major
        a = np.atleast_1d(a)
        assert a.size == v.symbol.size1() * v.symbol.size2(), v.symbol.name()
        out.extend(a.tolist())
    return ca.DM(out)


def resid(model, vals, t=0.0, initial=False):
    f = model.initial_residual_function if initial else model.dae_residual_function
    groups = (model.states, model.der_states, model.alg_states, model.inputs,
              model.constants, model.parameters)
    r = f(t, *[_vec(g, vals) for g in groups])
    return np.array(r).flatten()


def check(label, got, expected, failures):
    got = np.asarray(got, dtype=float).flatten()
    expected = np.asarray(expected, dtype=float).flatten()
    ok = got.shape == expected.shape and np.allclose(got, expected)
    print("{}: {}\n    observed residual {}\n    expected residual {}".format(
        "ok  " if ok else "FAIL", label, got.tolist(), expected.tolist()))
    if not ok:
        failures.append(label)


# ---------------------------------------------------------------- test
fails = []

# (a) slice: y = x[1:2:5] must pick x[1], x[3], x[5]
m = build("""
model M
  Real x[5]; Real y[3];
equation
  y = x[1:2:5];
end M;
""")
r = resid(m, dict(x=[1, 2, 3, 4, 5], y=[0, 0, 0]))
check("y = x[1:2:5]  (y - {x1,x3,x5})", r, [-1, -3, -5], fails)

# (b) for-equation: i must run over {1, 3, 5}
m = build("""
model M
  Real x[9];
equation
  for i in 1:2:5 loop
    x[i] = 10 * i;
  end for;
end M;
""")
r = resid(m, dict(x=[1, 2, 3, 4, 5, 6, 7, 8, 9]))
check("for i in 1:2:5 loop x[i] = 10*i", r, [1 - 10, 3 - 30, 5 - 50], fails)

# (c) for-statement in a function: s = a[1] + a[3] + a[5]
m = build("""
function f
  input Real a[9];
  output Real s;
algorithm
  s := 0;
  for i in 1:2:5 loop
    s := s + a[i];
  end for;
end f;
model M
  Real x[9]; Real y;
equation
  y = f(x);
end M;
""")
r = resid(m, dict(x=[1, 2, 3, 4, 5, 6, 7, 8, 9], y=0))
check("function: for i in 1:2:5 loop s := s + a[i]", r, [-(1 + 3 + 5)], fails)

sys.exit(1 if fails else 0)
