"""C11 / finding 7: a call of a function with several outputs is translated to the vertcat of ALL
outputs (generator.py exitExpression, last branch).  Only `lhs = f(..)` equations truncate it; used
inside an expression (Modelica: the first output) the scalar equation silently becomes a vector
equation, and the statement `(b, c) := g(a)` assigns the whole stacked vector to b and to c
(generator.py exitAssignmentStatement)."""
import sys
import numpy as np
import casadi as ca
from pymoca import parser
from pymoca.backends.casadi import generator


def parse(src):
    tree = parser.parse(src, bypass_cache=True)
    if tree is None:
        raise RuntimeError("parse failed")
    return tree


def build(src, name="M", options=None, tree_hook=None):
    tree = parse(src)
    if tree_hook is not None:
        tree_hook(tree)
    return generator.generate(tree, name, options)


def _vec(variables, vals):
    out = []
    for v in variables:
        a = np.array(vals[v.symbol.name()], dtype=float)
        if a.ndim == 2:
            a = a.flatten(order="F")  # CasADi is column major
        a = np.atleast_1d(a)
        assert a.size == v.symbol.size1() * v.symbol.size2(), v.symbol.name()
        out.extend(a.tolist())
    return ca.DM(out)


def resid(model, vals, t=0.0, initial=False):
    f = model.initial_residual_function if initial else model.dae_residual_function
    groups = (model.states, model.der_states, model.alg_states, model.inputs,
              model.constants, model.parameters)
    r = f(t, *[_vec(g, vals) for g in groups])
    return np.array(r).flatten()


def check(label, got, expected, failures):
    got = np.asarray(got, dtype=float).flatten()
    expected = np.asarray(expected, dtype=float).flatten()
    ok = got.shape == expected.shape and np.allclose(got, expected)
    print("{}: {}\n    observed residual {}\n    expected residual {}".format(
        "ok  " if ok else "FAIL", label, got.tolist(), expected.tolist()))
    if not ok:
        failures.append(label)


# ---------------------------------------------------------------- test
fails = []
G = """
function g
  input Real a;
  output Real b;
  output Real c;
algorithm
  b := a + 1;
  c := a + 2;
end g;
"""
m = build(G + """
model M
  Real x; Real y;
equation
  y = g(x) + 1;
end M;
""")
check("y = g(x) + 1 (first output of g)", resid(m, dict(x=3, y=0)), [-5], fails)

label = "(b, c) := g(a) inside a function"
try:
    m = build(G + """
function f
  input Real a;
  output Real b;
  output Real c;
algorithm
  (b, c) := g(a);
  c := c * 2;
end f;
model M
  Real x; Real y; Real z;
equation
  (y, z) = f(x);
end M;
""")
    check(label, resid(m, dict(x=3, y=0, z=0)), [-4, -10], fails)
except Exception as e:  # noqa
    print("FAIL: {}\n    raised {}: {}".format(label, type(e).__name__, str(e).splitlines()[0]))
    fails.append(label)

sys.exit(1 if fails else 0)
