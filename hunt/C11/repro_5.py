"""C11 / finding 5: generator.py exitExpression translates sum(v) with ca.sum1(v), i.e. a
column-wise sum.  For a row vector (A[i,:], or e[2].z of an array of components) nothing is summed
and for a matrix only the columns are summed; the scalar equation silently becomes a vector one."""
import sys
import numpy as np
import casadi as ca
from pymoca import parser
from pymoca.backends.casadi import generator


def parse(src):
    tree = parser.parse(src, bypass_cache=True)
    if tree is None:
        raise RuntimeError("parse failed")
    return tree


def build(src, name="M", options=None, tree_hook=None):
    tree = parse(src)
    if tree_hook is not None:
        tree_hook(tree)
    return generator.generate(tree, name, options)


def _vec(variables, vals):
    out = []
    for v in variables:
        a = np.array(vals[v.symbol.name()], dtype=float)
        if a.ndim == 2:
            a = a.flatten(order="F")  # CasADi is column major
        a = np.atleast_1d(a)
        assert a.size == v.symbol.size1() * v.symbol.size2(), v.symbol.name()
        out.extend(a.tolist())
    return ca.DM(out)


def resid(model, vals, t=0.0, initial=False):
    f = model.initial_residual_function if initial else model.dae_residual_function
    groups = (model.states, model.der_states, model.alg_states, model.inputs,
              model.constants, model.parameters)
    r = f(t, *[_vec(g, vals) for g in groups])
    return np.array(r).flatten()


def check(label, got, expected, failures):
    got = np.asarray(got, dtype=float).flatten()
    expected = np.asarray(expected, dtype=float).flatten()
    ok = got.shape == expected.shape and np.allclose(got, expected)
    print("{}: {}\n    observed residual {}\n    expected residual {}".format(
        "ok  " if ok else "FAIL", label, got.tolist(), expected.tolist()))
    if not ok:
        failures.append(label)


# ---------------------------------------------------------------- test
fails = []
A = [[1, 2, 3], [4, 5, 6]]

m = build("""
model M
  Real A[2,3]; Real y;
equation
  y = sum(A[1,:]);
end M;
""")
check("y = sum(A[1,:])", resid(m, dict(A=A, y=0)), [-6], fails)

m = build("""
model M
  Real A[2,3]; Real y;
equation
  y = sum(A);
end M;
""")
check("y = sum(A)", resid(m, dict(A=A, y=0)), [-21], fails)

m = build("""
model E
  Real z[3];
end E;
model M
  E e[2]; Real y;
equation
  y = sum(e[2].z);
end M;
""")
check("y = sum(e[2].z)", resid(m, {"e.z": A, "y": 0}), [-15], fails)

m = build("""
model M
  Real A[2,3]; Real y;
equation
  y = sum(A[:,2]);
end M;
""")
check("y = sum(A[:,2]) (column, control)", resid(m, dict(A=A, y=0)), [-7], fails)

sys.exit(1 if fails else 0)
