"""C24: a 'parameter output' / 'constant output' symbol is also listed as an algebraic variable (as a different symbol)."""
import os, sys, tempfile
sys.path.insert(0, os.environ.get('PYMOCA_SRC', '/tmp/hunt_C24/src'))
os.environ['XDG_CACHE_HOME'] = tempfile.mkdtemp(prefix='pymoca_cache_')
from pymoca import parser
import pymoca.backends.sympy.generator as gen
import pymoca.backends.sympy.runtime as rt


def generate(txt, name):
    return gen.generate(parser.parse(txt), name)


def instantiate(src, clsname):
    """exec the generated module with a stubbed solver, return the model instance"""
    rt.OdeModel.compute_fg = lambda self: None
    ns = {}
    exec(compile(src, '<generated>', 'exec'), ns)
    return ns[clsname]()


bad = []
txt = """
model M
  parameter output Real k = 2;
  Real x;
equation
  der(x) = k;
end M;
"""
src = generate(txt, 'M')
m = instantiate(src, 'M')
if len(m.v) != 0:
    bad.append("parameter k is listed in v: v=%s p=%s y=%s (flat model has 1 state, 0 algebraic variables, 1 equation)"
               % (list(m.v), list(m.p), list(m.y)))
if len(m.x) + len(m.v) != len(m.eqs):
    bad.append("#x + #v = %d != #eqs = %d, the real compute_fg() raises RuntimeError" % (len(m.x) + len(m.v), len(m.eqs)))

if bad:
    print("DEFECT (repro_7):")
    for b in bad:
        print("  -", b)
    sys.exit(1)
print("ok")
sys.exit(0)
