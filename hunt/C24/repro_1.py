"""C24: a parameter/constant whose declared value is not a bare literal (e.g. -1, 2*3, another parameter) yields invalid Python."""
import os, sys, tempfile
sys.path.insert(0, os.environ.get('PYMOCA_SRC', '/tmp/hunt_C24/src'))
os.environ['XDG_CACHE_HOME'] = tempfile.mkdtemp(prefix='pymoca_cache_')
from pymoca import parser
import pymoca.backends.sympy.generator as gen
import pymoca.backends.sympy.runtime as rt


def generate(txt, name):
    return gen.generate(parser.parse(txt), name)


def instantiate(src, clsname):
    """exec the generated module with a stubbed solver, return the model instance"""
    rt.OdeModel.compute_fg = lambda self: None
    ns = {}
    exec(compile(src, '<generated>', 'exec'), ns)
    return ns[clsname]()


bad = []
cases = {
    'negative literal': "model M parameter Real p = -1; Real x; equation der(x) = p; end M;",
    'product': "model M parameter Real p = 2*3; Real x; equation der(x) = p; end M;",
    'other parameter': "model M parameter Real q = 4; parameter Real p = q; Real x; equation der(x) = p; end M;",
    'constant': "model M constant Real c = -9.81; Real x; equation der(x) = c; end M;",
}
for label, txt in cases.items():
    src = generate(txt, 'M')
    try:
        compile(src, '<generated>', 'exec')
    except SyntaxError as e:
        line = src.splitlines()[e.lineno - 1].strip()
        bad.append("%s: generated module is not valid Python: %s -> %r" % (label, e.msg, line))

if bad:
    print("DEFECT (repro_1):")
    for b in bad:
        print("  -", b)
    sys.exit(1)
print("ok")
sys.exit(0)
