"""C24: BUILTINS is dir() of a dict, so no Python builtin / keyword / template name is protected."""
import os, sys, tempfile
sys.path.insert(0, os.environ.get('PYMOCA_SRC', '/tmp/hunt_C24/src'))
os.environ['XDG_CACHE_HOME'] = tempfile.mkdtemp(prefix='pymoca_cache_')
from pymoca import parser
import pymoca.backends.sympy.generator as gen
import pymoca.backends.sympy.runtime as rt


def generate(txt, name):
    return gen.generate(parser.parse(txt), name)


def instantiate(src, clsname):
    """exec the generated module with a stubbed solver, return the model instance"""
    rt.OdeModel.compute_fg = lambda self: None
    ns = {}
    exec(compile(src, '<generated>', 'exec'), ns)
    return ns[clsname]()


bad = []
_b = getattr(gen, 'BUILTINS', None)
if _b is not None and ('abs' not in _b or 'keys' in _b):
    bad.append("generator.BUILTINS holds dict method names, not builtin names: 'abs' in BUILTINS=%s, 'keys' in BUILTINS=%s"
               % ('abs' in _b, 'keys' in _b))

# every name below is a legal Modelica identifier
for name in ['lambda', 'None', 'True', 'def', 'is', 'pass', 'self', 'sympy', 'mech', 'sin', 'abs']:
    txt = """
model M
  parameter Real k = 1;
  Real %s;
  Real z;
equation
  %s = k;
  z = sin(time) + abs(k);
end M;
""" % (name, name)
    src = generate(txt, 'M')
    try:
        m = instantiate(src, 'M')
    except BaseException as e:
        bad.append("variable %r: generated module fails: %s: %s" % (name, type(e).__name__, e))
        continue
    if len(m.eqs) != 2 or len(m.v) != 2:
        bad.append("variable %r: wrong lists" % name)

if bad:
    print("DEFECT (repro_2):")
    for b in bad:
        print("  -", b)
    sys.exit(1)
print("ok")
sys.exit(0)
