"""C24: Modelica builtin calls other than sin/cos/tan are emitted as names the module never defines."""
import os, sys, tempfile
sys.path.insert(0, os.environ.get('PYMOCA_SRC', '/tmp/hunt_C24/src'))
os.environ['XDG_CACHE_HOME'] = tempfile.mkdtemp(prefix='pymoca_cache_')
from pymoca import parser
import pymoca.backends.sympy.generator as gen
import pymoca.backends.sympy.runtime as rt


def generate(txt, name):
    return gen.generate(parser.parse(txt), name)


def instantiate(src, clsname):
    """exec the generated module with a stubbed solver, return the model instance"""
    rt.OdeModel.compute_fg = lambda self: None
    ns = {}
    exec(compile(src, '<generated>', 'exec'), ns)
    return ns[clsname]()


bad = []
import math
for fn, arg, want in [('exp', 0.5, math.exp(0.5)), ('sqrt', 4.0, 2.0), ('log', 2.0, math.log(2.0)), ('asin', 0.5, math.asin(0.5)),
                      ('acos', 0.5, math.acos(0.5)), ('atan', 0.5, math.atan(0.5)), ('sinh', 0.5, math.sinh(0.5)),
                      ('cosh', 0.5, math.cosh(0.5)), ('tanh', 0.5, math.tanh(0.5)), ('log10', 100.0, 2.0),
                      ('sign', -3.0, -1.0)]:
    txt = "model M Real x; Real y; equation der(x) = 1; y = %s(x); end M;" % fn
    src = generate(txt, 'M')
    try:
        m = instantiate(src, 'M')
        got = float(m.eqs[1].subs([(m.v[0], 0.0), (m.x[0], arg)]))
        if abs(got + want) > 1e-9:
            bad.append("%s: eq evaluates to %r, expected %r" % (fn, got, -want))
    except BaseException as e:
        bad.append("%s(x): %s: %s" % (fn, type(e).__name__, e))

if bad:
    print("DEFECT (repro_6):")
    for b in bad:
        print("  -", b)
    sys.exit(1)
print("ok")
sys.exit(0)
