"""C24: name mangling is not injective: distinct Modelica variables share one Python/SymPy symbol."""
import os, sys, tempfile
sys.path.insert(0, os.environ.get('PYMOCA_SRC', '/tmp/hunt_C24/src'))
os.environ['XDG_CACHE_HOME'] = tempfile.mkdtemp(prefix='pymoca_cache_')
from pymoca import parser
import pymoca.backends.sympy.generator as gen
import pymoca.backends.sympy.runtime as rt


def generate(txt, name):
    return gen.generate(parser.parse(txt), name)


def instantiate(src, clsname):
    """exec the generated module with a stubbed solver, return the model instance"""
    rt.OdeModel.compute_fg = lambda self: None
    ns = {}
    exec(compile(src, '<generated>', 'exec'), ns)
    return ns[clsname]()


bad = []
import sympy
cases = {
    "a.b vs a__b": ("""
model A Real b; end A;
model M
  A a;
  Real a__b;
equation
  a.b = 1;
  a__b = 2;
end M;
""", 2),
    "builtin-mangled copy -> copy_ vs copy_": ("""
model M
  Real copy;
  Real copy_;
equation
  copy = 1;
  copy_ = 2;
end M;
""", 2),
    "a_.b vs a._b": ("""
model A Real b; Real _b; end A;
model M
  A a_;
  A a;
equation
  a_.b = 1; a_._b = 2; a.b = 3; a._b = 4;
end M;
""", 4),
}
for label, (txt, n) in cases.items():
    src = generate(txt, 'M')
    m = instantiate(src, 'M')
    distinct = set(m.v)
    if len(distinct) != n:
        bad.append("%s: %d Modelica variables but only %d distinct symbols: v=%s eqs=%s"
                   % (label, n, len(distinct), list(m.v), m.eqs))

if bad:
    print("DEFECT (repro_3):")
    for b in bad:
        print("  -", b)
    sys.exit(1)
print("ok")
sys.exit(0)
