"""C24: a parameter or constant named t is the same SymPy symbol as time."""
import os, sys, tempfile
sys.path.insert(0, os.environ.get('PYMOCA_SRC', '/tmp/hunt_C24/src'))
os.environ['XDG_CACHE_HOME'] = tempfile.mkdtemp(prefix='pymoca_cache_')
from pymoca import parser
import pymoca.backends.sympy.generator as gen
import pymoca.backends.sympy.runtime as rt


def generate(txt, name):
    return gen.generate(parser.parse(txt), name)


def instantiate(src, clsname):
    """exec the generated module with a stubbed solver, return the model instance"""
    rt.OdeModel.compute_fg = lambda self: None
    ns = {}
    exec(compile(src, '<generated>', 'exec'), ns)
    return ns[clsname]()


bad = []
txt = """
model M
  parameter Real t = 2;
  Real x;
  Real y;
equation
  der(x) = t;
  y = time + t;
end M;
"""
src = generate(txt, 'M')
m = instantiate(src, 'M')
p_t = m.p[0]
if p_t == m.t:
    bad.append("parameter t and time are the same symbol (p[0] == self.t)")
# evaluate 2nd equation  y - (time + t)  at y=0, time=10, t=2 -> expected -12
y = m.v[0]
val = m.eqs[1].subs(y, 0)
# substitute time first, then the parameter: if they are distinct this gives -12
got = val.subs(m.t, 10).subs(p_t, 2)
if got != -12:
    bad.append("eqs[1] = %s evaluates to %s at y=0,time=10,t=2; expected -12" % (m.eqs[1], got))

if bad:
    print("DEFECT (repro_4):")
    for b in bad:
        print("  -", b)
    sys.exit(1)
print("ok")
sys.exit(0)
