"""C24: a model that lives in a package gets a dotted Python class name -> invalid Python."""
import os, sys, tempfile
sys.path.insert(0, os.environ.get('PYMOCA_SRC', '/tmp/hunt_C24/src'))
os.environ['XDG_CACHE_HOME'] = tempfile.mkdtemp(prefix='pymoca_cache_')
from pymoca import parser
import pymoca.backends.sympy.generator as gen
import pymoca.backends.sympy.runtime as rt


def generate(txt, name):
    return gen.generate(parser.parse(txt), name)


def instantiate(src, clsname):
    """exec the generated module with a stubbed solver, return the model instance"""
    rt.OdeModel.compute_fg = lambda self: None
    ns = {}
    exec(compile(src, '<generated>', 'exec'), ns)
    return ns[clsname]()


bad = []
txt = """
package P
  model M
    Real x;
  equation
    der(x) = 1;
  end M;
end P;
"""
src = generate(txt, 'P.M')
try:
    compile(src, '<generated>', 'exec')
except SyntaxError as e:
    bad.append("generated module is not valid Python: %s -> %r" % (e.msg, src.splitlines()[e.lineno - 1].strip()))

if bad:
    print("DEFECT (repro_5):")
    for b in bad:
        print("  -", b)
    sys.exit(1)
print("ok")
sys.exit(0)
