"""C25 finding 1: a signed literal start/value (start=-1.5, p=-2) crashes the XML generator."""
import os, sys, tempfile
sys.path.insert(0, os.environ.get('PYMOCA_SRC', '/tmp/hunt_C25/src'))
os.environ['XDG_CACHE_HOME'] = tempfile.mkdtemp(prefix='pymoca_cache_')
from lxml import etree
from pymoca import parser
from pymoca.backends.xml import generator


def gen(src, name='M'):
    tree = parser.parse(src)
    assert tree is not None, 'model text does not parse'
    return generator.generate(tree, name)

bad = []
# control: the same literal is fine on the right-hand side of an equation
xml = gen("model M Real x; equation der(x) = -1.5; end M;")
etree.fromstring(xml.encode())

for label, src, comp, item, expect in [
    ("start=-1.5", "model M Real x(start=-1.5); equation der(x)=1; end M;", "x", "start", -1.5),
    ("parameter p=-2", "model M parameter Real p=-2; Real x; equation x=p; end M;", "p", "value", -2.0),
    ("constant c=+3", "model M constant Real c=+3; Real x; equation x=c; end M;", "c", "value", 3.0),
]:
    try:
        xml = gen(src)
    except Exception as e:  # property promises a component element with the literal
        bad.append("%s: generate() raised %s: %s" % (label, type(e).__name__, e))
        continue
    root = etree.fromstring(xml.encode())
    it = root.xpath("//component[@name='%s']/modifier/item[@name='%s']" % (comp, item))
    if len(it) != 1:
        bad.append("%s: no <item name=%r> in component %s" % (label, item, comp))
        continue
    # evaluate <real value=v/> or <operator name='-'|'+'><real/></operator>
    e = it[0][0]
    if e.tag == 'real':
        v = float(e.get('value'))
    elif e.tag in ('operator', 'apply') and len(e) == 1 and e[0].tag == 'real':
        v = float(e[0].get('value')) * (-1 if (e.get('name') or e.get('builtin')) == '-' else 1)
    else:
        v = None
    if v != expect:
        bad.append("%s: item carries %r, expected %r" % (label, v, expect))

if bad:
    print("DEFECT (C25/1): signed literal start/value is not carried by the component element")
    for b in bad:
        print("  -", b)
    sys.exit(1)
print("ok")
sys.exit(0)
