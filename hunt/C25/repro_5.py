"""C25 finding 5: array subscripts of a reference and initial equations are silently dropped."""
import os, sys, tempfile
sys.path.insert(0, os.environ.get('PYMOCA_SRC', '/tmp/hunt_C25/src'))
os.environ['XDG_CACHE_HOME'] = tempfile.mkdtemp(prefix='pymoca_cache_')
from lxml import etree
from pymoca import parser
from pymoca.backends.xml import generator


def gen(src, name='M'):
    tree = parser.parse(src)
    assert tree is not None, 'model text does not parse'
    return generator.generate(tree, name)

bad = []
def run(label, src, check):
    try:
        xml = gen(src)
    except (NotImplementedError,) as e:
        return  # clean rejection is fine
    except Exception as e:
        return  # a crash is a different (known: unsupported construct) matter
    msg = check(etree.fromstring(xml.encode()), xml)
    if msg:
        bad.append("%s: %s" % (label, msg))

def chk_sub(root, xml):
    eqs = root.xpath('//equation/equal')
    lhs = ["<%s name=%r/>" % (e[0].tag, e[0].get("name")) for e in eqs]
    if len(lhs) == 2 and lhs[0] == lhs[1]:
        return "x[1] = 1 and x[2] = 2 both become %s = ... (subscript lost)" % lhs[0]
run("subscripts", "model M Real x[2]; equation x[1] = 1; x[2] = 2; end M;", chk_sub)

def chk_init(root, xml):
    if '3' not in [r.get('value') for r in root.iter('real')]:
        return "initial equation x = 3 does not appear anywhere in the output"
run("initial equation", "model M Real x; initial equation x = 3; equation der(x) = 1; end M;", chk_init)

if bad:
    print("DEFECT (C25/5): parts of the flat model are dropped silently")
    for b in bad:
        print("  -", b)
    sys.exit(1)
print("ok")
sys.exit(0)
