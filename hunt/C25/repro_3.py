"""C25 finding 3: Boolean (and String) literals are emitted as <real value="True"/>."""
import os, sys, tempfile
sys.path.insert(0, os.environ.get('PYMOCA_SRC', '/tmp/hunt_C25/src'))
os.environ['XDG_CACHE_HOME'] = tempfile.mkdtemp(prefix='pymoca_cache_')
from lxml import etree
from pymoca import parser
from pymoca.backends.xml import generator


def gen(src, name='M'):
    tree = parser.parse(src)
    assert tree is not None, 'model text does not parse'
    return generator.generate(tree, name)

src = """model M
  parameter Boolean pb = true;
  Boolean b(start=false, fixed=true);
  Real x;
equation
  b = true;
  x = 1;
end M;"""
xml = gen(src)
root = etree.fromstring(xml.encode())
bad = []
for r in root.iter('real'):
    v = r.get('value')
    try:
        float(v)
    except ValueError:
        where = root.getroottree().getpath(r)
        bad.append("<real value=%r/> at %s" % (v, where))
# the reader shipped with the backend cannot read it back either
from pymoca.backends.xml import parser as xml_reader
try:
    lst = xml_reader.ModelListener()
    xml_reader.walk(root, lst)
except ValueError as e:
    bad.append("pymoca.backends.xml.parser.ModelListener: ValueError: %s" % e)
except Exception as e:  # other reader limitations are not what is tested here
    pass
if bad:
    print("DEFECT (C25/3): Boolean literal is not carried as a Boolean (<true/>/<false/>) but as a 'real' whose value is not a number")
    for b in bad:
        print("  -", b)
    sys.exit(1)
print("ok")
sys.exit(0)
