"""C25 finding 4: elsewhen branches of a when-equation are silently dropped."""
import os, sys, tempfile
sys.path.insert(0, os.environ.get('PYMOCA_SRC', '/tmp/hunt_C25/src'))
os.environ['XDG_CACHE_HOME'] = tempfile.mkdtemp(prefix='pymoca_cache_')
from lxml import etree
from pymoca import parser
from pymoca.backends.xml import generator


def gen(src, name='M'):
    tree = parser.parse(src)
    assert tree is not None, 'model text does not parse'
    return generator.generate(tree, name)

src = """model M
  Real x;
  discrete Real y;
  discrete Real z;
equation
  der(x) = 1;
  when x > 1 then
    y = 10;
  elsewhen x > 2 then
    y = 20;
    z = 30;
  end when;
end M;"""
try:
    xml = gen(src)
except NotImplementedError as e:
    print("ok (cleanly rejected: %s)" % e)
    sys.exit(0)
root = etree.fromstring(xml.encode())
lits = sorted(r.get('value') for r in root.iter('real'))
refs = sorted(set(l.get('name') for l in root.iter('local')))
missing = [v for v in ('2', '20', '30') if v not in lits]
bad = []
if missing:
    bad.append("literals of the elsewhen branch missing from the output: %s (present: %s)" % (missing, lits))
if 'z' not in refs:
    bad.append("variable z (assigned only in the elsewhen branch) is never referenced in <equation>")
if bad:
    print("DEFECT (C25/4): the elsewhen branch is lost without any error")
    for b in bad:
        print("  -", b)
    sys.exit(1)
print("ok")
sys.exit(0)
