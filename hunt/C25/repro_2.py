"""C25 finding 2: a model with a non-empty class annotation crashes the XML generator (KeyError)."""
import os, sys, tempfile
sys.path.insert(0, os.environ.get('PYMOCA_SRC', '/tmp/hunt_C25/src'))
os.environ['XDG_CACHE_HOME'] = tempfile.mkdtemp(prefix='pymoca_cache_')
from lxml import etree
from pymoca import parser
from pymoca.backends.xml import generator


def gen(src, name='M'):
    tree = parser.parse(src)
    assert tree is not None, 'model text does not parse'
    return generator.generate(tree, name)

plain = "model M Real x; equation der(x) = 1; end M;"
ref = gen(plain)
bad = []
for label, src in [
    ("annotation(experiment(StopTime=1))", "model M Real x; equation der(x) = 1; annotation(experiment(StopTime=1)); end M;"),
    ("annotation(Evaluate=true)", "model M Real x; equation der(x) = 1; annotation(Evaluate=true); end M;"),
]:
    try:
        xml = gen(src)
    except Exception as e:
        bad.append("%s: generate() raised %s: %.120s" % (label, type(e).__name__, e))
        continue
    if xml != ref:
        bad.append("%s: output differs from the same model without annotation" % label)
if bad:
    print("DEFECT (C25/2): an annotation (no effect on the flat variables/equations) breaks generation")
    for b in bad:
        print("  -", b)
    sys.exit(1)
print("ok")
sys.exit(0)
