"""C19 finding 3: with several delays, the durations reconstructed by load_model keep symbolic
dependencies on unrelated parameters/inputs (variable `actual_deps` is overwritten inside the loop)."""
import casadi as ca
from repro_common import CachedModel, model_dir, transfer_model

SRC = """
model M
  parameter Real p1 = 2;
  parameter Real p2 = 3;
  Real x(start = 1);
  Real a;
  Real b;
equation
  der(x) = -x;
  a = delay(x, p1);
  b = delay(x, p2);
end M;
"""
d = model_dir(SRC)
opts = {"cache": True}
fresh = transfer_model(d, "M", dict(opts))
cached = transfer_model(d, "M", dict(opts))
assert isinstance(cached, CachedModel)

bad = False
for i, (f, c) in enumerate(zip(fresh.delay_arguments, cached.delay_arguments)):
    sf = sorted(s.name() for s in ca.symvar(ca.MX(f.duration)))
    sc = sorted(s.name() for s in ca.symvar(ca.MX(c.duration)))
    if sf != sc:
        bad = True
        print("DEFECT: duration %d depends on %s in the fresh model but on %s in the cached model" % (i, sf, sc))
        # what a user would do: evaluate the duration as a function of the parameter it depends on
        p = [v.symbol for v in cached.parameters if v.symbol.name() in sf]
        try:
            ca.Function("dur", p, [c.duration])
        except RuntimeError as e:
            print("   ca.Function('dur', %s, [duration]) fails:" % sf, str(e).strip().splitlines()[-1][:160])
raise SystemExit(1 if bad else 0)
