"""C19 finding 1: load_model crashes for a model with a vector parameter that is
not expanded (expand_vectors=False) as soon as the model has more than one parameter."""
import traceback
from repro_common import CachedModel, model_dir, transfer_model

SRC = """
model M
  parameter Real q = 2;
  parameter Real B[3] = {1, 2, 3};
  Real x(max = q);
equation
  x = q * B[2];
end M;
"""
d = model_dir(SRC)
opts = {"cache": True}
fresh = transfer_model(d, "M", dict(opts))  # compiles and writes the cache
try:
    cached = transfer_model(d, "M", dict(opts))  # loads the cache
except Exception as e:
    traceback.print_exc(limit=-2)
    print("DEFECT: loading the freshly written cache raised", type(e).__name__)
    raise SystemExit(1)
assert isinstance(cached, CachedModel)
names = lambda m: [v.symbol.name() for v in m.parameters]
if names(fresh) != names(cached):
    print("DEFECT: parameters differ", names(fresh), names(cached))
    raise SystemExit(1)
print("ok")
