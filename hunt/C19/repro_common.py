"""Shared helpers for the C19 repro scripts (not a finding itself)."""
import os
import sys
import tempfile

os.environ.setdefault("XDG_CACHE_HOME", tempfile.mkdtemp(prefix="c19_xdg_"))
sys.path.insert(0, os.environ.get("PYMOCA_SRC", "/repo/src"))

import logging  # noqa: E402

logging.getLogger("pymoca").setLevel(logging.ERROR)

from pymoca.backends.casadi.api import CachedModel, transfer_model  # noqa: E402,F401


def model_dir(src, fname="m.mo", prefix="c19_"):
    d = tempfile.mkdtemp(prefix=prefix)
    with open(os.path.join(d, fname), "w") as f:
        f.write(src)
    return d
