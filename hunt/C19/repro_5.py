"""C19 finding 5: the codegen cache stores the library paths exactly as model_folder was spelled when
the cache was written.  With a relative model_folder the cache can only be loaded from the same working
directory; from another one transfer_model raises RuntimeError instead of loading (or recompiling)."""
import os
import subprocess
import sys
import tempfile

SRC = """
model N
  parameter Real p = 2;
  Real x(start = 1, max = p);
equation
  der(x) = -p * x;
end N;
"""
CHILD = r"""
import os, sys
sys.path.insert(0, os.path.dirname(os.path.abspath(sys.argv[0])) if False else sys.argv[3])
from repro_common import transfer_model, CachedModel
os.chdir(sys.argv[1])
try:
    m = transfer_model(sys.argv[2], "N", {"codegen": True})
    r = float(m.dae_residual_function(0, 1, 0.5, [], [], [], 2))
    print(type(m).__name__, r)
    sys.exit(0 if r == 2.5 else 1)
except Exception as e:
    print("EXC", type(e).__name__, str(e).strip().splitlines()[1][:150] if "\n" in str(e) else str(e)[:150])
    sys.exit(1)
"""
here = os.path.dirname(os.path.abspath(__file__))
base = tempfile.mkdtemp(prefix="c19rel_")
os.makedirs(os.path.join(base, "models"))
os.makedirs(os.path.join(base, "other"))
with open(os.path.join(base, "models", "N.mo"), "w") as f:
    f.write(SRC)
child = os.path.join(base, "child.py")
with open(child, "w") as f:
    f.write(CHILD)


def run(cwd, folder):
    p = subprocess.run([sys.executable, child, cwd, folder, here], capture_output=True, text=True)
    out = [line for line in p.stdout.splitlines() if line.strip()]
    print("  cwd=%s folder=%s ->" % (os.path.relpath(cwd, base), folder), out[-1] if out else p.stderr[-300:])
    return p.returncode


rc1 = run(base, "models")  # compiles, writes cache with relative library paths
rc2 = run(base, "models")  # loads the cache: fine
rc3 = run(os.path.join(base, "other"), os.path.join("..", "models"))  # same folder, other cwd
if rc1 or rc2:
    print("unexpected: baseline failed")
    raise SystemExit(2)
if rc3:
    print("DEFECT: the same model folder cannot be loaded from another working directory")
    raise SystemExit(1)
print("ok")
