"""C19 finding 4: codegen=True crashes for any model that lives in a package (dotted class name),
while cache=True and a plain compile of the same class work."""
import traceback
from repro_common import CachedModel, model_dir, transfer_model

SRC = """
package P
  model M
    parameter Real p = 2;
    Real x(start = 1, max = p);
  equation
    der(x) = -p * x;
  end M;
end P;
"""
d = model_dir(SRC)
plain = transfer_model(d, "P.M", {})
try:
    transfer_model(d, "P.M", {"codegen": True})
    cached = transfer_model(d, "P.M", {"codegen": True})
except Exception as e:
    traceback.print_exc(limit=-1)
    print("DEFECT: codegen of class 'P.M' raised", type(e).__name__)
    raise SystemExit(1)
assert isinstance(cached, CachedModel)
a = plain.dae_residual_function(0, 1, 0.5, [], [], [], 2)
b = cached.dae_residual_function(0, 1, 0.5, [], [], [], 2)
if float(a) != float(b):
    print("DEFECT: residuals differ", a, b)
    raise SystemExit(1)
print("ok")
