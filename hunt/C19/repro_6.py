"""C19 finding 6: stale shared library.  Within one process: load codegen cache (keep the model), edit the
.mo file, call transfer_model (recompiles, fresh Model is right), call transfer_model again -> the
CachedModel evaluates the OLD residual, because the library file name is reused and the dynamic loader
returns the already loaded library for that path."""
import os
import time
from repro_common import CachedModel, model_dir, transfer_model

SRC = """
model N
  parameter Real p = 2;
  Real x(start = 1);
equation
  der(x) = -%s * p * x;
end N;
"""
d = model_dir(SRC % "1", fname="N.mo")
o = {"codegen": True}
args = (0, 1, 0, [], [], [], 2)
m1 = transfer_model(d, "N", dict(o))
m2 = transfer_model(d, "N", dict(o))  # CachedModel, keeps the libraries loaded
assert isinstance(m2, CachedModel)
time.sleep(0.05)
with open(os.path.join(d, "N.mo"), "w") as f:
    f.write(SRC % "5")
m3 = transfer_model(d, "N", dict(o))  # cache out of date -> recompiled
m4 = transfer_model(d, "N", dict(o))  # loaded from the new cache
assert not isinstance(m3, CachedModel) and isinstance(m4, CachedModel)
r3 = float(m3.dae_residual_function(*args))
r4 = float(m4.dae_residual_function(*args))
print("fresh compile of edited model:", r3, " cached model of edited model:", r4)
if r3 != r4:
    print("DEFECT: cached model evaluates the residual of the previous version of the model")
    raise SystemExit(1)
print("ok")
