"""C19 finding 2: parameter-dependent attributes of a derivative state (obtained through
alias detection, allow_derivative_aliases=True is the default) are None in the cached model."""
import casadi as ca
from repro_common import CachedModel, model_dir, transfer_model

SRC = """
model M
  parameter Real p = 2;
  Real x(start = 1);
  Real y(min = p, max = 2 * p, nominal = p);
equation
  der(x) = y;
  x + y = sin(time);
end M;
"""
d = model_dir(SRC)
opts = {"cache": True, "detect_aliases": True}
fresh = transfer_model(d, "M", dict(opts))
cached = transfer_model(d, "M", dict(opts))
assert isinstance(cached, CachedModel)


def ev(model, val):
    if isinstance(val, ca.MX):
        ps = ca.veccat(*[p.symbol for p in model.parameters])
        return float(ca.Function("f", [ps], [val])(3.0))
    return val


bad = False
for vf, vc in zip(fresh.der_states, cached.der_states):
    for attr in ("min", "max", "nominal"):
        a, b = ev(fresh, getattr(vf, attr)), ev(cached, getattr(vc, attr))
        if a != b:
            bad = True
            print("DEFECT: %s.%s fresh=%r (p=3)  cached=%r" % (vf.symbol.name(), attr, a, b))
raise SystemExit(1 if bad else 0)
