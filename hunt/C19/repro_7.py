"""C19 finding 7 (minor): a matrix-valued, parameter-dependent attribute of an unexpanded matrix variable
comes back from the cache as a flattened column vector instead of a matrix of the variable's shape."""
from repro_common import CachedModel, model_dir, transfer_model

SRC = """
model M
  parameter Real A[2,3] = {{1,2,3},{4,5,6}};
  Real V[2,3](max = A);
equation
  V = 2 * A;
end M;
"""
d = model_dir(SRC)
fresh = transfer_model(d, "M", {"cache": True})
cached = transfer_model(d, "M", {"cache": True})
assert isinstance(cached, CachedModel)
sf, sc = fresh.alg_states[0].max.shape, cached.alg_states[0].max.shape
print("V.max shape: fresh", sf, "cached", sc, " (symbol shape", cached.alg_states[0].symbol.shape, ")")
if sf != sc:
    print("DEFECT: attribute shape differs; cached.max[0, 1] is not the bound of V[1,2] any more")
    raise SystemExit(1)
print("ok")
