"""C13 / F2: an attribute modification written in the enclosing class, A a(x(max = p)),
is evaluated in the scope of the component (a.p) instead of the enclosing class (p).

Clause: attributes equal the modified expressions evaluated at the given parameter values.
Observed: a.x.max = MX(a.p), a.x.start = 1 + a.p; the dotted form y.max = p and value modifications (a(p = 2*p))
  resolve to M.p correctly.  Only visible when the component class has a symbol of the same name.
Root cause: src/pymoca/tree.py build_instance_tree, elementary-symbol branch (and the same statement in the
  inheriting_from_builtin branch): `sym_mod.arguments.extend(el_arg.arguments)` moves the inner
  ClassModificationArguments (scope None) to the symbol without copying the outer `arg.scope`; modify_symbol treats
  scope None as "current class", so flatten_component_refs prefixes p with "a.".
Fix (verified): before both `sym_mod.arguments.extend(el_arg.arguments)`:
      for nested_arg in el_arg.arguments:
          if nested_arg.scope is None:
              nested_arg.scope = arg.scope
Confidence: high.
"""
import sys
sys.path.insert(0, "/repo/src")
import numpy as np
from pymoca import parser
from pymoca.backends.casadi.generator import generate

SRC = """
model A
  parameter Real p = 1;
  Real x;
  Real y;
equation
  x = 1; y = 1;
end A;
model M
  parameter Real p = 5;
  A a(x(max = p, start = p + 1), y.max = p);   // both forms must mean M.p
end M;
"""
m = generate(parser.parse(SRC), "M", {})
names = [x.symbol.name() for x in m.parameters]
vals = {"a.p": 100.0, "p": 7.0}
meta = np.array(m.variable_metadata_function([vals[n] for n in names])[1])
rows = {x.symbol.name(): i for i, x in enumerate(m.alg_states)}
bad = []
if meta[rows["a.y"], 2] != 7.0:
    bad.append("control a.y.max (dotted form): expected 7, got %r" % meta[rows["a.y"], 2])
if meta[rows["a.x"], 2] != 7.0:
    bad.append("a.x.max: expected M.p = 7, got %r (Variable.max = %s)" % (meta[rows["a.x"], 2], m.alg_states[rows["a.x"]].max))
if meta[rows["a.x"], 3] != 8.0:
    bad.append("a.x.start: expected M.p + 1 = 8, got %r (Variable.start = %s)" % (meta[rows["a.x"], 3], m.alg_states[rows["a.x"]].start))
if bad:
    print("DEFECT: nested attribute modification resolved in the wrong scope:")
    print("\n".join("  " + b for b in bad))
    sys.exit(1)
print("ok")
