"""C13 / F4: an array-literal attribute with parameter *expressions*, e.g. max = {2*p, 10},
is stored on the Variable as a Python list of MX; variable_metadata_function cannot
convert it (ca.MX(list of MX)) and raises, and Model._substitute_metadata ignores it.

Clause: holds both on the Variable objects and in the variable-metadata function (array attributes).
Root cause: generator.exitArray yields a Python list, _ast_symbols_to_variables stores it unchanged;
  model.py variable_metadata_function: `try: value = ca.DM(value) except: pass; value = ca.MX(value)` fails for
  [MX, int] / nested lists with MX.  _substitute_metadata only handles isinstance(value, ca.MX), so
  replace_parameter_values / replace_parameter_expressions leave stale parameter symbols in such lists.
  Same representation makes `min = -{1,2}` raise TypeError and transpose({{..}}) raise AttributeError.
Fix (verified for 1-D/2-D, expand_vectors, replace_parameter_values/expressions): in _ast_symbols_to_variables
      if isinstance(v, list) and _contains_mx(v): v = _list_to_mx(v)
  with _list_to_mx = vertcat of entries (inner lists transposed to rows).
Confidence: high.
"""
import sys
sys.path.insert(0, "/repo/src")
import numpy as np
from pymoca import parser
from pymoca.backends.casadi.generator import generate

SRC = """
model M
  parameter Real p = 2;
  Real y[2](max = {2*p, 10});
equation
  y = {1, 2};
end M;
"""
m = generate(parser.parse(SRC), "M", {})
print("Variable y.max =", m.alg_states[0].max, type(m.alg_states[0].max).__name__)
try:
    meta = np.array(m.variable_metadata_function([2.5])[1])
except Exception as e:
    print("DEFECT: variable_metadata_function raised %s: %s" % (type(e).__name__, str(e).split("\n")[0][:120]))
    sys.exit(1)
if meta[:, 2].tolist() != [5.0, 10.0]:
    print("DEFECT: max column is %r, expected [5.0, 10.0]" % meta[:, 2].tolist())
    sys.exit(1)
print("ok")
