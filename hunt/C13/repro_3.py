"""C13 / F3: an array-literal attribute whose elements are plain parameter references,
e.g. start = {p, q}, crashes the CasADi generator with KeyError in exitArray.

Clause: quantifier "arrays ... of parameters"; crash where a result is promised.
Root cause: src/pymoca/backends/casadi/generator.py Generator.exitArray:
      self.src[tree] = [self.src[e] for e in tree.values]
  ComponentRefs are only resolved lazily by get_mx(); they are never put into self.src by a listener callback.
Fix (verified, together with F4): self.src[tree] = [self.get_mx(e) for e in tree.values]
Confidence: high.
"""
import sys
sys.path.insert(0, "/repo/src")
import numpy as np
from pymoca import parser
from pymoca.backends.casadi.generator import generate

SRC = """
model M
  parameter Real p = 2;
  parameter Real q = 3;
  Real y[2](start = {p, q});
equation
  y = {1, 2};
end M;
"""
try:
    m = generate(parser.parse(SRC), "M", {})
    meta = np.array(m.variable_metadata_function([2.5, 3.5])[1])
except KeyError as e:
    print("DEFECT: generate() raised KeyError(%s) for 'Real y[2](start = {p, q})'" % e)
    sys.exit(1)
except Exception as e:
    print("DEFECT (other failure): %s: %s" % (type(e).__name__, str(e)[:200]))
    sys.exit(1)
if meta[:, 3].tolist() != [2.5, 3.5]:
    print("DEFECT: start column is %r, expected [2.5, 3.5]" % meta[:, 3].tolist())
    sys.exit(1)
print("ok")
