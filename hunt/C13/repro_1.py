"""C13 / F1: modifications on a component whose type is a derived type of a derived
elementary type (type Len2 = Len(...); type Len = Real(...)) are silently dropped.

Clause: attributes equal the declared or modified attribute expressions.
Observed: Len2 b(start = 3, max = 50) -> start 0 (default), max 100 (from the type); 1-level type Len works.
Root cause: src/pymoca/tree.py flatten_extends: `if c.type == "__builtin": extended_orig_class.type = c.type`
  is tested on the *unflattened* direct parent, so only a direct Real/Integer/... parent marks the class as
  builtin.  For Len2 the block `if extended_orig_class.type == "__builtin":` (shift modification environment to
  the __value symbol) is skipped; build_instance_tree later filters the arguments for symbol "__value" by name
  ("__value"/"value") and discards start/max/... without error.
Fix (verified on a private copy): after `c = flatten_extends(c, extends.class_modification, parent=c.parent)` add
      if c.type == "__builtin":
          extended_orig_class.type = c.type
Confidence: very high.
"""
import sys
sys.path.insert(0, "/repo/src")
import numpy as np
from pymoca import parser
from pymoca.backends.casadi.generator import generate

SRC = """
type Len  = Real(min = 0, nominal = 10);
type Len2 = Len(max = 100);
model M
  parameter Real p = 5;
  Len  a(start = 3, max = 50);     // one level: works
  Len2 b(start = 3, max = 50);     // two levels: start/max are lost
  Len2 c(start = 2*p);
equation
  a = 1; b = 1; c = 1;
end M;
"""
m = generate(parser.parse(SRC), "M", {})
v = {x.symbol.name(): x for x in m.alg_states}
meta = np.array(m.variable_metadata_function([7.0])[1])  # rows a, b, c; cols value,min,max,start,fixed,nominal
bad = []
if float(v["a"].start) != 3.0 or float(v["a"].max) != 50.0:
    bad.append("control a: start=%r max=%r" % (v["a"].start, v["a"].max))
if not (meta[1, 3] == 3.0 and meta[1, 2] == 50.0):
    bad.append("b: expected start=3 max=50 (min=0 nominal=10), got start=%r max=%r | Variable.start=%r Variable.max=%r"
               % (meta[1, 3], meta[1, 2], v["b"].start, v["b"].max))
if not meta[2, 3] == 14.0:
    bad.append("c: expected start=2*p=14 at p=7, got %r (Variable.start=%r)" % (meta[2, 3], v["c"].start))
if bad:
    print("DEFECT: declared attribute modifications lost on 2-level derived type:")
    print("\n".join("  " + b for b in bad))
    sys.exit(1)
print("ok")
