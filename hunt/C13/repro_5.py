"""C13 / F5: an attribute (or value) modification written in nested form two component
levels deep, B b(a(x(min = 3))), crashes flattening with IndexError; the equivalent
dotted form b(a.x(min = 3)) works.

Clause: declared or modified attribute expressions; crash instead of a result.
Root cause: src/pymoca/tree.py build_instance_tree, non-elementary-symbol branch:
      else:
          arg.value.component = arg.value.component.child[0]   # assumes dotted form
  An argument arriving through the modification environment as a( ... ) has component.child == [] and carries
  its payload in arg.value.modifications[0].arguments.
Fix (verified, override order inner < extends < instance checked): make that branch `elif arg.value.component.child:`
  and add `else:` extending sym_mod.arguments with the arguments of every ClassModification in
  arg.value.modifications (copying arg.scope to those with scope None).
Confidence: high (general flattening defect; also hits value modifications b(a(p = 3))).
"""
import sys
sys.path.insert(0, "/repo/src")
import numpy as np
from pymoca import parser
from pymoca.backends.casadi.generator import generate

TEMPLATE = """
model A
  Real x(min = 0, max = 100);
equation
  x = 1;
end A;
model B
  A a;
end B;
model M
  B %s;
end M;
"""
res = {}
for mod in ["b(a.x(min = 3))", "b(a(x(min = 3)))"]:
    try:
        m = generate(parser.parse(TEMPLATE % mod), "M", {})
        res[mod] = np.array(m.variable_metadata_function(np.zeros(0))[1])[0, 1]
    except Exception as e:
        res[mod] = "%s: %s" % (type(e).__name__, str(e).replace("\n", " ")[:100])
print(res)
if res["b(a.x(min = 3))"] != 3.0:
    print("control (dotted form) failed")
    sys.exit(1)
if res["b(a(x(min = 3)))"] != 3.0:
    print("DEFECT: nested-form modification 'B b(a(x(min = 3)))' -> %s (expected b.a.x.min == 3)" % res["b(a(x(min = 3)))"])
    sys.exit(1)
print("ok")
