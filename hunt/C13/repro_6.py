"""C13 / F6 (lower confidence): an attribute that refers to a constant makes
variable_metadata_function raise (free variable), unless replace_constant_values was used.

Strictly outside the quantifier (expressions of parameters).  Root cause: model.py variable_metadata_function
builds ca.Function(..., [parameters], out) although attribute expressions may contain constants' symbols.
Fix sketch (verified): substitute self._symbols(self.constants) by the constants' values in `expr`
(loop while ca.depends_on) before building the function.  Confidence: medium.
"""
import sys
sys.path.insert(0, "/repo/src")
import numpy as np
from pymoca import parser
from pymoca.backends.casadi.generator import generate

SRC = """
model M
  constant Real c = 4;
  parameter Real p = 2;
  Real x(nominal = c, max = p);
equation
  x = 1;
end M;
"""
m = generate(parser.parse(SRC), "M", {})
try:
    meta = np.array(m.variable_metadata_function([2.5])[1])
except Exception as e:
    print("DEFECT: variable_metadata_function raised %s: %s" % (type(e).__name__, str(e).replace("\n", " ")[-160:]))
    sys.exit(1)
if meta[0, 5] != 4.0 or meta[0, 2] != 2.5:
    print("DEFECT: got nominal=%r max=%r, expected 4, 2.5" % (meta[0, 5], meta[0, 2]))
    sys.exit(1)
print("ok")
