"""C04 / 'each declared component exactly once': a component redeclaration in the modification of a
short class definition is registered as a component of the class being defined."""
import sys
from pymoca import parser

txt = """package P
  model B replaceable Real x; end B;
  type C = Real(min=0);
  model N = B(redeclare C x);
  model N2 extends B(redeclare C x); end N2;
end P;"""
P = parser.parse(txt, bypass_cache=True).classes["P"]
N, N2 = P.classes["N"], P.classes["N2"]
bad = False
if list(N2.symbols) != []:
    bad = True
    print("DEFECT: N2 declares no component but has symbols", list(N2.symbols))
if list(N.symbols) != []:
    bad = True
    print("DEFECT: 'model N = B(redeclare C x)' declares no component but N.symbols =", list(N.symbols),
          "(the equivalent long form N2 has", list(N2.symbols), ")")
if len(N.extends) != 1 or len(N.extends[0].class_modification.arguments) != 1:
    bad = True
    print("DEFECT: extends of N", N.extends)
sys.exit(1 if bad else 0)
