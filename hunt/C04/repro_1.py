"""C04 / prefixes: several type prefixes on one component clause are fused into one string."""
import sys
from pymoca import parser

txt = """model M
  flow parameter input Real a;
  discrete input Real u;
  parameter output Real p = 2;
  parameter Real q;
end M;"""
M = parser.parse(txt, bypass_cache=True).classes["M"]
expected = {
    "a": ["flow", "parameter", "input"],
    "u": ["discrete", "input"],
    "p": ["parameter", "output"],
    "q": ["parameter"],
}
bad = False
for name, exp in expected.items():
    got = M.symbols[name].prefixes
    if got != exp:
        bad = True
        print("DEFECT: symbol %s: prefixes %r, expected %r" % (name, got, exp))
sys.exit(1 if bad else 0)
