"""C04 / array dimensions: with array subscripts on the type ("Real[3] x, y[2]") the subscripts of
the individual declarators are discarded."""
import sys
from pymoca import parser


def dims(sym):
    return [[p.value for p in level] for level in sym.dimensions]


M = parser.parse("model M Real[3] x, y[2], z[4,5]; Real w[2,3]; end M;", bypass_cache=True).classes["M"]
got = {n: dims(s) for n, s in M.symbols.items()}
# Modelica 3.x section 10.1: "Real[3] y[2]" is the same declaration as "Real y[2,3]"
expected = {"x": [[3]], "y": [[2, 3]], "z": [[4, 5, 3]], "w": [[2, 3]]}
bad = False
for n in expected:
    if got[n] != expected[n]:
        bad = True
        print("DEFECT: %s has dimensions %r, expected %r" % (n, got[n], expected[n]))
sys.exit(1 if bad else 0)
