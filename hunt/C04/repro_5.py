"""C04 / imports: "import A.B.{C, D, E}" with three or more names attaches garbage to the class."""
import sys
from pymoca import parser

two = parser.parse("model M import A.B.{C, D}; end M;", bypass_cache=True).classes["M"]
assert {k: v.to_tuple() for k, v in two.imports.items()} == {"C": ("A", "B", "C"), "D": ("A", "B", "D")}

M = parser.parse("model M import A.B.{C, D, E}; end M;", bypass_cache=True).classes["M"]
got = {k: v.to_tuple() for k, v in M.imports.items()}
expected = {"C": ("A", "B", "C"), "D": ("A", "B", "D"), "E": ("A", "B", "E")}
if got != expected:
    print("DEFECT: imports %r, expected %r" % (got, expected))
    sys.exit(1)
sys.exit(0)
