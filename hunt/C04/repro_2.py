"""C04 / components, modifications: a component redeclaration inside the modification of a
component declaration ("A a(redeclare B b)") crashes the parser; the same text in an extends
clause parses."""
import sys
from pymoca import parser, ast

ok_txt = "model M extends A(redeclare B b); Real z; end M;"
M = parser.parse(ok_txt, bypass_cache=True).classes["M"]
assert list(M.symbols) == ["z"]

bad = False
for txt in (
    "model M public A a(redeclare B b); Real z; end M;",
    "model M public A a(redeclare B b(q=1), k=2), c; Real z; end M;",
    "model M public A a(replaceable B b); end M;",
    "model M public A a(sub(redeclare B b)); end M;",
):
    try:
        M = parser.parse(txt, bypass_cache=True).classes["M"]
    except Exception as e:  # AttributeError: 'NoneType' object has no attribute 'class_modification'
        bad = True
        print("DEFECT: %r -> %s: %s" % (txt, type(e).__name__, e))
        continue
    names = [n for n in M.symbols if n != "z"]
    exp = ["a", "c"] if ", c;" in txt else ["a"]
    if names != exp or any(str(M.symbols[n].type) != "A" for n in names):
        bad = True
        print("DEFECT: %r -> symbols %r" % (txt, {n: str(s.type) for n, s in M.symbols.items()}))
    cm = M.symbols["a"].class_modification
    if cm is None:
        bad = True
        print("DEFECT: %r -> the modification of a is lost (class_modification is None)" % txt)
    elif "sub(" not in txt and not isinstance(cm.arguments[0].value, ast.ComponentClause):
        bad = True
        print("DEFECT: %r -> first modification argument is %r" % (txt, cm.arguments[0].value))
    vis = {n: str(s.visibility) for n, s in M.symbols.items()}
    if set(vis.values()) != {"public"}:
        bad = True
        print("DEFECT: %r -> visibilities %r, all declared in a public section" % (txt, vis))
sys.exit(1 if bad else 0)
