"""C27 finding 3 (operation history): Tree.extend() aliases the nodes of its argument, so a parsed library
tree that is merged into two different trees carries classes of the first assembly into the second."""
import os, sys
sys.path.insert(0, os.environ.get("PYMOCA_SRC", "/tmp/hunt_C27/src"))
from pymoca import ast, parser, tree

lib = parser.parse("package P constant Real k = 1; end P;", bypass_cache=True)

def assemble(user_text):
    t = ast.Tree()
    t.extend(lib)                                   # library first ...
    t.extend(parser.parse(user_text, bypass_cache=True))  # ... then the user's file
    return t

t1 = assemble("within P; model M Real x = 1; end M;")
t2 = assemble("within P; model M Real x = 2; end M;")
eqs = tree.flatten(t2, ast.ComponentRef.from_string("P.M")).classes["P.M"].equations
print("second assembly, P.M equations:", eqs)
leak = "M" in lib.classes["P"].classes
print("library tree now contains P.M:", leak)
if "2" not in repr(eqs) or leak:
    print("expected x = 2 and an unchanged library tree")
    sys.exit(1)
print("ok")
sys.exit(0)
