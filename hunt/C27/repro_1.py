"""C27 finding 1: merging drops 'encapsulated' of a package whose own file has no elements but nested classes.
Exit 1 when the flattened model depends on the file order."""
import itertools, os, sys
sys.path.insert(0, os.environ.get("PYMOCA_SRC", "/tmp/hunt_C27/src"))
from pymoca import ast, parser, tree

CASES = {
    "top-level encapsulated package (package.mo / M.mo / K.mo)": (
        ["within; encapsulated package P end P;",
         "within P; model M K.T x = 3; end M;",
         "package K type T = Real(min = 0); end K;"], "P.M"),
    "nested encapsulated package written inline": (
        ["package P type T = Real(min = 1); encapsulated package Q model N Real y = 2; end N; end Q; end P;",
         "within P.Q; model M T x = 3; end M;"], "P.Q.M"),
}

def flat(files, order, name):
    t = None
    for i in order:
        p = parser.parse(files[i], bypass_cache=True)
        if t is None:
            t = p
        else:
            t.extend(p)
    try:
        c = tree.flatten(t, ast.ComponentRef.from_string(name)).classes[name]
        return "OK symbols=%s equations=%r" % (sorted(c.symbols), c.equations)
    except Exception as e:  # noqa
        return "ERROR %s: %s" % (type(e).__name__, e)

bad = False
for label, (files, name) in CASES.items():
    results = {o: flat(files, o, name) for o in itertools.permutations(range(len(files)))}
    if len(set(results.values())) > 1:
        bad = True
        print("ORDER-DEPENDENT:", label)
        for o, r in results.items():
            print("   order", o, "->", r)
if bad:
    print("expected: the same outcome for every order (P / Q is encapsulated, so the lookup of the outer "
          "name must fail in every order, as it does when the library is one file)")
    sys.exit(1)
print("ok: same result for every order")
sys.exit(0)
