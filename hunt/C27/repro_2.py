"""C27 finding 2: CasADi API directory walk - a file that does not parse is skipped silently when it is
discovered first, but crashes the compilation with AttributeError when it is discovered later."""
import itertools, os, sys, tempfile
os.environ["XDG_CACHE_HOME"] = tempfile.mkdtemp()
sys.path.insert(0, os.environ.get("PYMOCA_SRC", "/tmp/hunt_C27/src"))
import logging
logging.disable(logging.CRITICAL)
from pymoca.backends.casadi import api

FILES = {"A.mo": "model A Real x; equation x = 1; end A;",
         "Bad.mo": "model Bad Real x equation x = ; end Bad;"}  # syntax error

results = {}
real_walk = os.walk
for perm in itertools.permutations(FILES):
    d = tempfile.mkdtemp()
    for n, txt in FILES.items():
        with open(os.path.join(d, n), "w") as f:
            f.write(txt)
    def walk(folder, perm=perm, **kw):  # force the directory listing order
        for root, dirs, fs in real_walk(folder, **kw):
            yield root, dirs, [p for p in perm if p in fs]
    os.walk = walk
    try:
        stderr, sys.stderr = sys.stderr, open(os.devnull, "w")
        try:
            m = api.transfer_model(d, "A", {})
        finally:
            sys.stderr = stderr
        results[perm] = "OK alg_states=%s" % [v.symbol.name() for v in m.alg_states]
    except Exception as e:  # noqa
        results[perm] = "ERROR %s: %s" % (type(e).__name__, e)
    finally:
        os.walk = real_walk

for k, v in results.items():
    print(k, "->", v)
if len(set(results.values())) > 1:
    print("outcome depends on the order in which os.walk lists the files")
    sys.exit(1)
print("ok")
sys.exit(0)
