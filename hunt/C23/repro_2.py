import os, sys, tempfile
sys.path.insert(0, os.environ.get('PYMOCA_SRC', '/tmp/hunt_C23/src'))
os.environ['XDG_CACHE_HOME'] = tempfile.mkdtemp(prefix='pymoca_cache_')
import logging; logging.disable(logging.WARNING)
import casadi as ca
from pymoca import parser
from pymoca.backends.casadi import generator


def generate(txt, name='M'):
    return generator.generate(parser.parse(txt), name, {})


def selected(model, sym_name):
    """Set of (row, col) 1-based elements of symbol `sym_name` that the model's
    residuals depend on (column-major CasADi storage -> Modelica subscripts)."""
    allv = (model.states + model.alg_states + model.der_states + model.parameters
            + model.constants + model.inputs)
    s = next(v.symbol for v in allv if v.symbol.name() == sym_name)
    res = ca.vertcat(*[ca.vec(e) for e in model.equations])
    sp = ca.Function('J', [s], [ca.jacobian(res, ca.vec(s))],
                     {'allow_free': True}).sparsity_out(0)
    n1 = s.size1()
    out = set()
    for k in range(s.numel()):
        if any(sp.has_nz(r, k) for r in range(res.numel())):
            out.add((k % n1 + 1, k // n1 + 1))
    return out, res.numel()

# Finding 2: a subscript in an equation written inside a class that is instantiated
# as an array of components is applied as a linear index on the whole 2-D symbol.
bad = []
for k in (1, 2, 3):
    txt = ("model A Real x[3]; equation x[%d] = 1; end A;\n"
           "model M A a[2]; end M;" % k)
    try:
        m = generate(txt)
    except Exception as e:
        print("x[%d] rejected: %s" % (k, e))
        continue
    got, n = selected(m, 'a.x')   # a.x is stored as a 2x3 matrix: (component, element)
    want = {(1, k), (2, k)}
    names = sorted("a[%d].x[%d]" % g for g in got)
    print("A.x[%d] = 1 with A a[2]: residual constrains %s, expected a[1].x[%d] and a[2].x[%d]" % (k, names, k, k))
    if got != want:
        bad.append(k)
if bad:
    print("DEFECT: in-range subscript mapped to a different element for x[k], k in", bad)
    sys.exit(1)
sys.exit(0)
