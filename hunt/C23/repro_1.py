import os, sys, tempfile
sys.path.insert(0, os.environ.get('PYMOCA_SRC', '/tmp/hunt_C23/src'))
os.environ['XDG_CACHE_HOME'] = tempfile.mkdtemp(prefix='pymoca_cache_')
import logging; logging.disable(logging.WARNING)
import casadi as ca
from pymoca import parser
from pymoca.backends.casadi import generator


def generate(txt, name='M'):
    return generator.generate(parser.parse(txt), name, {})


def selected(model, sym_name):
    """Set of (row, col) 1-based elements of symbol `sym_name` that the model's
    residuals depend on (column-major CasADi storage -> Modelica subscripts)."""
    allv = (model.states + model.alg_states + model.der_states + model.parameters
            + model.constants + model.inputs)
    s = next(v.symbol for v in allv if v.symbol.name() == sym_name)
    res = ca.vertcat(*[ca.vec(e) for e in model.equations])
    sp = ca.Function('J', [s], [ca.jacobian(res, ca.vec(s))],
                     {'allow_free': True}).sparsity_out(0)
    n1 = s.size1()
    out = set()
    for k in range(s.numel()):
        if any(sp.has_nz(r, k) for r in range(res.numel())):
            out.add((k % n1 + 1, k // n1 + 1))
    return out, res.numel()

# Finding 1: a single subscript on a 2-D array is used as a linear (column-major)
# element index instead of selecting a row.
bad = []
for r in (1, 2):
    txt = "model M Real x[2,3]; Real y[3]; equation x[%d] = y; end M;" % r
    try:
        m = generate(txt)
    except Exception as e:  # rejecting the model would be acceptable
        print("x[%d] rejected: %s" % (r, e))
        continue
    got, n = selected(m, 'x')
    want = {(r, 1), (r, 2), (r, 3)}
    print("x[%d] = y on Real x[2,3]: residual uses x elements %s, expected %s" % (r, sorted(got), sorted(want)))
    if got != want:
        bad.append(r)
# the for-loop form goes through the same code
txt = "model M Real x[2,3]; equation for i in 1:2 loop x[i] = {1,2,3}; end for; end M;"
try:
    m = generate(txt)
    got, n = selected(m, 'x')
    want = {(i, j) for i in (1, 2) for j in (1, 2, 3)}
    print("for i in 1:2: x[i] = {1,2,3}: residual uses %s" % sorted(got))
    if got != want:
        bad.append('loop')
except Exception as e:
    print("loop form rejected: %s" % str(e)[:100])
if bad:
    print("DEFECT: subscript of a matrix row silently mapped to other element(s):", bad)
    sys.exit(1)
sys.exit(0)
