import os, sys, tempfile
sys.path.insert(0, os.environ.get('PYMOCA_SRC', '/tmp/hunt_C23/src'))
os.environ['XDG_CACHE_HOME'] = tempfile.mkdtemp(prefix='pymoca_cache_')
import logging; logging.disable(logging.WARNING)
import casadi as ca
from pymoca import parser
from pymoca.backends.casadi import generator


def generate(txt, name='M'):
    return generator.generate(parser.parse(txt), name, {})


def selected(model, sym_name):
    """Set of (row, col) 1-based elements of symbol `sym_name` that the model's
    residuals depend on (column-major CasADi storage -> Modelica subscripts)."""
    allv = (model.states + model.alg_states + model.der_states + model.parameters
            + model.constants + model.inputs)
    s = next(v.symbol for v in allv if v.symbol.name() == sym_name)
    res = ca.vertcat(*[ca.vec(e) for e in model.equations])
    sp = ca.Function('J', [s], [ca.jacobian(res, ca.vec(s))],
                     {'allow_free': True}).sparsity_out(0)
    n1 = s.size1()
    out = set()
    for k in range(s.numel()):
        if any(sp.has_nz(r, k) for r in range(res.numel())):
            out.add((k % n1 + 1, k // n1 + 1))
    return out, res.numel()

# Finding 3: a subscript whose integer value is unknown (Integer parameter without a
# value, or an Integer variable) is silently replaced by ':' (the whole dimension).
bad = []
cases = {
    "valueless parameter, lhs": "model M Real x[3]; parameter Integer k; equation x[k] = 7; end M;",
    "valueless parameter, rhs": "model M Real x[3]; Real y; parameter Integer k; equation y = x[k]; end M;",
    "start only":               "model M Real x[3]; parameter Integer k(start=2); equation x[k] = 7; end M;",
    "Integer variable":         "model M Real x[3]; Integer k; equation x[k] = 7; k = 2; end M;",
    "2-D second subscript":     "model M Real x[2,3]; parameter Integer k; equation x[1,k] = 7; end M;",
}
for label, txt in cases.items():
    try:
        m = generate(txt)
    except Exception as e:
        print("%s: rejected (%s)" % (label, str(e)[:80]))
        continue
    got, n = selected(m, 'x')
    print("%s: accepted; %d residual rows, constrain x elements %s" % (label, n, sorted(got)))
    if len(got) != 1:
        bad.append(label)
if bad:
    print("DEFECT: scalar subscript x[k] silently became the whole dimension for:", bad)
    sys.exit(1)
sys.exit(0)
