import os, sys, tempfile
sys.path.insert(0, os.environ.get('PYMOCA_SRC', '/tmp/hunt_C23/src'))
os.environ['XDG_CACHE_HOME'] = tempfile.mkdtemp(prefix='pymoca_cache_')
import logging; logging.disable(logging.WARNING)
import casadi as ca
from pymoca import parser
from pymoca.backends.casadi import generator


def generate(txt, name='M'):
    return generator.generate(parser.parse(txt), name, {})


def selected(model, sym_name):
    """Set of (row, col) 1-based elements of symbol `sym_name` that the model's
    residuals depend on (column-major CasADi storage -> Modelica subscripts)."""
    allv = (model.states + model.alg_states + model.der_states + model.parameters
            + model.constants + model.inputs)
    s = next(v.symbol for v in allv if v.symbol.name() == sym_name)
    res = ca.vertcat(*[ca.vec(e) for e in model.equations])
    sp = ca.Function('J', [s], [ca.jacobian(res, ca.vec(s))],
                     {'allow_free': True}).sparsity_out(0)
    n1 = s.size1()
    out = set()
    for k in range(s.numel()):
        if any(sp.has_nz(r, k) for r in range(res.numel())):
            out.add((k % n1 + 1, k // n1 + 1))
    return out, res.numel()

# Finding 4: der() of an in-range row selection of a matrix is rejected with an
# "out of bounds" error (every row except the first).
bad = []
for r in (1, 2):
    txt = "model M Real x[2,3]; equation der(x[%d,:]) = {1,2,3}; end M;" % r
    try:
        m = generate(txt)
    except Exception as e:
        print("der(x[%d,:]) on Real x[2,3] failed: %s" % (r, " ".join(str(e).split())[:160]))
        bad.append(r)
        continue
    got, n = selected(m, 'der(x)')
    want = {(r, 1), (r, 2), (r, 3)}
    print("der(x[%d,:]): uses der(x) elements %s" % (r, sorted(got)))
    if got != want:
        bad.append(r)
# the same selection without der() is accepted:
m = generate("model M Real x[2,3]; equation x[2,:] = {1,2,3}; end M;")
print("x[2,:] without der(): uses", sorted(selected(m, 'x')[0]))
if bad:
    print("DEFECT: valid subscript rejected / mis-selected inside der() for rows", bad)
    sys.exit(1)
sys.exit(0)
