"""C03 / range expression start:step:stop parsed as start:stop:step."""
import sys
from pymoca import parser, ast
txt = "model M Real x[3]; equation x = 1:2:5; end M;"
t = parser.parse(txt, bypass_cache=True)
s = t.classes["M"].equations[0].right
assert isinstance(s, ast.Slice), s
got = (s.start.value, s.step.value, s.stop.value)
print("1:2:5 parsed as start=%s step=%s stop=%s" % got)
if got != (1, 2, 5):
    print("WRONG: Modelica 'a:b:c' is start:step:stop, i.e. {1,3,5}; expected start=1 step=2 stop=5")
    sys.exit(1)
sys.exit(0)
