"""C03 / a Real literal directly followed by an element-wise operator is lexed as one bogus number token."""
import sys
from pymoca import parser, ast
bad = 0
for src, op, val in [("1.5.*a", ".*", 1.5), ("2.0./a", "./", 2.0), ("1.0.+a", ".+", 1.0),
                     ("1.0.-a", ".-", 1.0), ("1.2.^3", ".^", 1.2), ("3..*a", ".*", 3.0)]:
    txt = "model M Real a; Real x; equation x = %s; end M;" % src
    try:
        t = parser.parse(txt, bypass_cache=True)
        e = t.classes["M"].equations[0].right
        ok = isinstance(e, ast.Expression) and e.operator == op and e.operands[0].value == val
        print(src, "->", e, "OK" if ok else "WRONG")
        bad += not ok
    except Exception as ex:
        print(src, "-> crash", type(ex).__name__, ex)
        bad += 1
sys.exit(1 if bad else 0)
