"""C03 / '(, a)' (output list with an omitted position) is collapsed as if it were the parenthesised expression '(a)'."""
import sys
from pymoca import parser, ast
txt = """model M Real a, b, u;
equation
  (, a) = f(u);
  (b) = u;
end M;"""
t = parser.parse(txt, bypass_cache=True)
eqs = t.classes["M"].equations
l0, l1 = eqs[0].left, eqs[1].left
print("(, a) ->", l0)
print("(b)   ->", l1)
assert isinstance(l1, ast.ComponentRef)
if isinstance(l0, ast.ComponentRef):
    print("WRONG: '(, a) = f(u)' became 'a = f(u)': a now receives the FIRST output of f instead of the second")
    sys.exit(1)
sys.exit(0)
