"""C03 / variables written as quoted identifiers ('a b') cannot be lexed: Q_IDENT has no closing quote."""
import sys
from pymoca import parser, ast
txt = "model M Real 'a b'; Real x; equation x = 2 * 'a b' + 1; end M;"
try:
    t = parser.parse(txt, bypass_cache=True)
except Exception as ex:
    print("CRASH", type(ex).__name__, ex); sys.exit(1)
if t is None:
    print("WRONG: legal model with a quoted identifier is rejected with syntax errors"); sys.exit(1)
e = t.classes["M"].equations[0].right
print(e)
ok = e.operator == "+" and e.operands[0].operator == "*" and e.operands[0].operands[1].name == "'a b'"
sys.exit(0 if ok else 1)
