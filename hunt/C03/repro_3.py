"""C03 / string literals: escape sequences are not decoded; a string ending in an escaped backslash is mis-lexed."""
import sys
from pymoca import parser, ast
bad = 0
def rhs(src):
    t = parser.parse("model M String s; equation s = %s; end M;" % src, bypass_cache=True)
    return None if t is None else t.classes["M"].equations[0].right
for src, want in [(r'"a\nb"', "a\nb"), (r'"say \"hi\""', 'say "hi"'), (r'"C:\\tmp"', "C:\\tmp"), (r'"tab\there"', "tab\there")]:
    e = rhs(src)
    got = getattr(e, "value", e)
    ok = got == want
    print(src, "->", repr(got), "OK" if ok else "WRONG, expected %r" % want)
    bad += not ok
# "a\\" is the two characters a and backslash; the lexer treats \" as an escaped quote and runs on to the next quote
src = r'"a\\" + "b"'
e = rhs(src)
ok = isinstance(e, ast.Expression) and e.operator == "+" and len(e.operands) == 2
print(src, "->", e, "OK" if ok else "WRONG (legal input rejected / mis-tokenised)")
bad += not ok
sys.exit(1 if bad else 0)
