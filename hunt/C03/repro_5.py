"""C03 / builtin calls without arguments crash the AST listener (AttributeError / KeyError)."""
import sys
from pymoca import parser, ast
bad = 0
for src in ["initial()", "terminal()", "f()", "if initial() then 1 else 2", "a + f()"]:
    txt = "model M Real a; Real x; equation x = %s; end M;" % src
    try:
        t = parser.parse(txt, bypass_cache=True)
        print(src, "->", t.classes["M"].equations[0].right)
    except NotImplementedError as ex:
        print(src, "-> clean NotImplementedError", ex)
    except Exception as ex:
        print(src, "-> CRASH", type(ex).__name__, str(ex)[:90])
        bad += 1
sys.exit(1 if bad else 0)
