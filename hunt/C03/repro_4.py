"""C03 / builtin and function calls: named arguments and 'for' generators are silently dropped from the call."""
import sys
from pymoca import parser, ast
bad = 0
def rhs(src):
    t = parser.parse("model M Real a, b, x; equation x = %s; end M;" % src, bypass_cache=True)
    return None if t is None else t.classes["M"].equations[0].right
def nodes(e):
    """all AST nodes reachable from e"""
    out = [e]
    for attr in ("operands", "values"):
        for o in getattr(e, attr, []) or []:
            out += nodes(o)
    return out
for src in ["homotopy(actual=a, simplified=b)", "f(u=a)"]:
    try:
        e = rhs(src)
    except NotImplementedError as ex:
        print(src, "-> clean NotImplementedError:", ex); continue
    print(src, "-> call %s with %d operand(s)" % (e.operator, len(e.operands)))
    if len(e.operands) == 0:
        print("   WRONG: every named argument was dropped; the tree is a call with no operands")
        bad += 1
for src in ["sum(i*a for i in 1:3)", "{i*a for i in 1:3}"]:
    try:
        e = rhs(src)
    except NotImplementedError as ex:
        print(src, "-> clean NotImplementedError:", ex); continue
    kinds = [type(n).__name__ for n in nodes(e)]
    print(src, "-> nodes", kinds)
    if "Slice" not in kinds and "ForIndex" not in kinds:
        print("   WRONG: the 'for i in 1:3' generator was dropped; the tree holds only the body i*a")
        bad += 1
sys.exit(1 if bad else 0)
