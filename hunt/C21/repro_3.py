"""C21 repro 3: with codegen=True an interrupted cache write leaves the OLD .pymoca_cache next to NEW
(or half-written) shared libraries; the next transfer_model trusts the old index file.

History (every step is its own process, as it would be in practice):
  1. transfer_model(folder, "M", X={"codegen": True})                  -> M.pymoca_cache + 4 libraries
  2. transfer_model(folder, "M", Y=X+{"replace_parameter_values": True})   (e.g. another tool that
     uses the same model folder with its own options).  The cache is invalid for Y, so save_model
     starts to overwrite M_dae_residual.so, ... IN PLACE and is killed after the first library,
     i.e. before it reaches the open(db_file, "wb") at the end of save_model.
  3. transfer_model(folder, "M", X) again.

Expected (C21): step 3 returns a correct model for X (recompiling if needed).
Observed:  step 3 returns a CachedModel whose dae_residual is the library compiled for Y: the
parameter p is baked in as 3.0, so the residual at p = 5 is wrong (-0.5 instead of -2.5).
Variant 3b: if the writer is killed while the linker is still writing the first library (library
incomplete - this is also what a concurrent reader sees during the link), step 3 does not even
raise: dlopen() of the half-written library kills the interpreter with SIGBUS (exit code -7).

Exit status 1 if the defect manifests, 0 otherwise.
"""
import os
import shutil
import subprocess
import sys
import tempfile

os.environ.setdefault("XDG_CACHE_HOME", tempfile.mkdtemp(prefix="c21_xdg_"))
SRC_DIR = os.environ.get("PYMOCA_SRC", "/tmp/hunt_C21/src")

MODEL = """model M
  constant Real k = 2.0;
  parameter Real p = 3.0;
  Real x(start=1);
equation
  der(x) = -k * x + p;
end M;
"""

STEP = r'''
import os, sys
sys.path.insert(0, os.environ["PYMOCA_SRC"])
import logging; logging.disable(logging.CRITICAL)
import casadi as ca
from pymoca.backends.casadi import api
what, folder = sys.argv[1], sys.argv[2]
os.chdir(folder)
X = {"codegen": True}
Y = {"codegen": True, "replace_parameter_values": True}
if what == "killed_writer":
    real = api._codegen_model
    def killed_after_first_library(*a, **k):
        r = real(*a, **k)
        os._exit(9)          # the process dies here (kill -9 / power loss / OOM)
    api._codegen_model = killed_after_first_library
    api.transfer_model(folder, "M", dict(Y))
elif what == "killed_in_link":
    import distutils.ccompiler
    real_new = distutils.ccompiler.new_compiler
    def new_compiler(*a, **k):
        c = real_new(*a, **k)
        real_link = c.link
        def link(target_desc, objects, output_filename, *aa, **kk):
            real_link(target_desc, objects, output_filename, *aa, **kk)
            data = open(output_filename, "rb").read()   # pretend ld had only written half of
            with open(output_filename, "wb") as fh:     # its output when the process was killed
                fh.write(data[: len(data) // 2])
            os._exit(9)
        c.link = link
        return c
    distutils.ccompiler.new_compiler = new_compiler
    api.transfer_model(folder, "M", dict(Y))
else:
    try:
        m = api.transfer_model(folder, "M", dict(X))
    except BaseException as e:
        print("RAISED %s: %s" % (type(e).__name__, str(e).replace("\n", " ")[:160]))
        sys.exit(0)
    # residual of der(x) = -k*x + p at x=1, der(x)=0.5, k=2, p=5  ->  0.5 - (-2 + 5) = -2.5
    args = {"time": 0.0, "states": [1.0], "der_states": [0.5], "alg_states": [], "inputs": [],
            "constants": [2.0], "parameters": [5.0]}
    vals = [args[k] for k in ("time", "states", "der_states", "alg_states", "inputs", "constants", "parameters")]
    r = m.dae_residual_function(*[ca.DM(v) if not isinstance(v, float) else v for v in vals])
    print("%s residual=%s" % (type(m).__name__, float(r)))
'''


def run(folder, what):
    env = dict(os.environ, PYMOCA_SRC=SRC_DIR)
    p = subprocess.run(
        [sys.executable, os.path.join(folder, "step.py"), what, folder],
        env=env, stdout=subprocess.PIPE, stderr=subprocess.PIPE, universal_newlines=True,
    )
    return p.returncode, p.stdout.strip().splitlines()[-1] if p.stdout.strip() else p.stderr[-300:]


def fresh():
    folder = tempfile.mkdtemp(prefix="c21_r3_")
    with open(os.path.join(folder, "M.mo"), "w") as fh:
        fh.write(MODEL)
    with open(os.path.join(folder, "step.py"), "w") as fh:
        fh.write(STEP)
    return folder


status = 0

# ---- 3a: writer killed between the libraries and the index file
folder = fresh()
print("1.", run(folder, "load")[1])           # compiles, writes cache for X
print("1'", run(folder, "load")[1])           # loads it: reference
rc, out = run(folder, "killed_writer")
print("2. writer for other options killed, exit code", rc)
rc, out = run(folder, "load")
print("3.", out)
if out.startswith("RAISED"):
    print("DEFECT (3a): transfer_model raised after an interrupted cache write")
    status = 1
elif "residual=-2.5" not in out:
    print("DEFECT (3a): transfer_model returned a model with a wrong dae_residual (expected -2.5)")
    status = 1
shutil.rmtree(folder, ignore_errors=True)

# ---- 3b: writer killed while the linker output is incomplete
folder = fresh()
run(folder, "load")
rc, out = run(folder, "killed_in_link")
print("2b. writer for other options killed while linking the first library, exit code", rc)
rc, out = run(folder, "load")
print("3b. exit code", rc, "|", out)
if rc != 0:
    print("DEFECT (3b): the process calling transfer_model died (exit code %d) on a half-written cache library" % rc)
    status = 1
elif out.startswith("RAISED"):
    print("DEFECT (3b): transfer_model raised for a half-written cache library instead of recompiling")
    status = 1
elif "residual=-2.5" not in out:
    print("DEFECT (3b): wrong model")
    status = 1
shutil.rmtree(folder, ignore_errors=True)
sys.exit(status)
