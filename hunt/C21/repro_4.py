"""C21 repro 4: a partly written cache file whose unwritten part reads as zeros.

A cache file that is "partly written" is not always a strict prefix.  One 4 kB block of an
otherwise complete file reads as NUL bytes
  * after a power loss / kernel crash (delayed allocation: size updated, data block not), or
  * while two writers overlap (writer B truncates the file under writer A; A's next write() lands
    at its old offset and everything in front of it is a hole) and a third call reads the file.
For every 4 kB-aligned block of a valid cache file this script zeroes that block and calls
transfer_model.

Expected (C21): transfer_model returns a correct model, recompiling if needed.
Observed: (a) for most blocks CasADi's deserialiser throws RuntimeError with texts such as
"vector::_M_default_append", "Not implemented op ...", "Assertion ... sparsity.cpp" that
load_model's message filter ('DeserializingStream' / 'deserialization') does not recognise, so
transfer_model raises;  (b) for blocks inside the *__metadata_dependent arrays the file still
unpickles and a CachedModel with wrong attributes (nominal=None instead of p) is returned.

Exit status 1 if the defect manifests, 0 otherwise.
"""
import collections
import os
import shutil
import sys
import tempfile

os.environ.setdefault("XDG_CACHE_HOME", tempfile.mkdtemp(prefix="c21_xdg_"))
sys.path.insert(0, os.environ.get("PYMOCA_SRC", "/tmp/hunt_C21/src"))

import logging  # noqa: E402

from pymoca.backends.casadi.api import CachedModel, transfer_model  # noqa: E402

logging.disable(logging.CRITICAL)

N = 150
BLOCK = 4096
SRC = """model Big
  constant Real k = 2.0;
  parameter Real p = 3.0;
%s
equation
%s
end Big;
""" % (
    "\n".join("  Real x%d(start=%d, nominal=p, max=%d);" % (i, i, i + 100) for i in range(N)),
    "\n".join(
        "  der(x%d) = -k * x%d + p * sin(x%d) + %d;" % (i, i, (i + 1) % N, i) for i in range(N)
    ),
)
folder = tempfile.mkdtemp(prefix="c21_r4_")
with open(os.path.join(folder, "Big.mo"), "w") as fh:
    fh.write(SRC)
cache_file = os.path.join(folder, "Big.pymoca_cache")
X = {"cache": True}


def signature(m):
    """Numeric value of every attribute of every variable (parameters at p = 3)."""
    import casadi as ca

    pv = ca.veccat(*[v.symbol for v in m.parameters])
    keys, plain, exprs = [], {}, []
    for v in m.states + m.alg_states + m.parameters + m.constants:
        for a in ("value", "min", "max", "start", "fixed", "nominal"):
            x = getattr(v, a)
            if isinstance(x, ca.MX):
                keys.append((v.symbol.name(), a))
                exprs.append(ca.reshape(x, -1, 1))
            else:
                plain[(v.symbol.name(), a)] = str(x)
    vals = ca.Function("attrs", [pv], [ca.vertcat(*exprs)])(ca.DM([3.0] * pv.numel()))
    vals = [str(float(x)) for x in vals.full().ravel()]
    plain.update(dict(zip(keys, vals)))
    return sorted(plain.items())


transfer_model(folder, "Big", dict(X))
good = open(cache_file, "rb").read()
ref = transfer_model(folder, "Big", dict(X))
assert isinstance(ref, CachedModel)
ref_sig = signature(ref)
print("cache file:", len(good), "bytes,", (len(good) + BLOCK - 1) // BLOCK, "blocks")

outcome = collections.Counter()
examples = {}
for a in range(0, len(good), BLOCK):
    b = min(len(good), a + BLOCK)
    with open(cache_file, "wb") as fh:
        fh.write(good[:a] + b"\0" * (b - a) + good[b:])
    try:
        m = transfer_model(folder, "Big", dict(X))
    except BaseException as e:
        key = "RAISED " + type(e).__name__
        examples.setdefault(key, "block at %d: %s" % (a, str(e).replace("\n", " ")[:110]))
    else:
        if signature(m) == ref_sig:
            key = "ok (%s)" % type(m).__name__
        else:
            key = "WRONG MODEL RETURNED (%s)" % type(m).__name__
            diff = [(x, y) for x, y in zip(ref_sig, signature(m)) if x != y][0]
            examples.setdefault(key, "block at %d: expected %s got %s" % (a, diff[0], diff[1]))
    outcome[key] += 1

for k, v in outcome.most_common():
    print("%4d  %s%s" % (v, k, ("   e.g. " + examples[k]) if k in examples else ""))
shutil.rmtree(folder, ignore_errors=True)
bad = sum(v for k, v in outcome.items() if not k.startswith("ok"))
if bad:
    print("DEFECT: %d of %d partly written cache files break transfer_model" % (bad, sum(outcome.values())))
    sys.exit(1)
print("ok")
sys.exit(0)
