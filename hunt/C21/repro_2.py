"""C21 repro 2: two overlapping cache writes leave a permanently broken cache file.

Part A (deterministic, one process, two threads, different option sets):
  A = transfer_model(folder, "Big", {"cache": True})
  B = transfer_model(folder, "Big", {"cache": True, "replace_constant_values": True})
  A is in the middle of pickle.dump (first ~237 kB flushed to the file) when B finds the partly
  written file, recompiles, opens the same path with "wb" (truncating it under A) and writes its
  own cache.  A then writes the rest of its pickle at its old offset.  The file is now
  Q_B[:k] + P_A[k:].  Both calls return fine - but EVERY LATER transfer_model on that folder raises.

Part B (two real processes, IDENTICAL options, different PYTHONHASHSEED, which is the default
  situation because hash randomisation is on): the two pickles differ because Variable.aliases is
  a set of str; the mixed file raises TypeError("unhashable type: 'set'") in every later call.
  The only harness is a pass-through file proxy that pauses process A after its third write().

Expected (property C21): the next transfer_model returns a correct model (recompiling if needed).
Exit status 1 if the defect manifests in either part, 0 otherwise.
"""
import os
import shutil
import subprocess
import sys
import tempfile
import time

os.environ.setdefault("XDG_CACHE_HOME", tempfile.mkdtemp(prefix="c21_xdg_"))
SRC_DIR = os.environ.get("PYMOCA_SRC", "/tmp/hunt_C21/src")
sys.path.insert(0, SRC_DIR)

import logging  # noqa: E402

logging.disable(logging.CRITICAL)


def big_source(n):
    return """model Big
  constant Real k = 2.0;
  parameter Real p = 3.0;
%s
equation
%s
end Big;
""" % (
        "\n".join("  Real x%d(start=%d, nominal=p, max=%d);" % (i, i, i + 100) for i in range(n)),
        "\n".join(
            "  der(x%d) = -k * x%d + p * sin(x%d) + %d;" % (i, i, (i + 1) % n, i) for i in range(n)
        ),
    )


def alias_source(n):
    return """model Al
  parameter Real p = 3.0;
%s
equation
%s
end Al;
""" % (
        "\n".join(
            "  Real x%d(start=%d);\n  Real yy%d;\n  Real zzzz%d;\n  Real w%d;" % (i, i, i, i, i)
            for i in range(n)
        ),
        "\n".join(
            "  der(x%d) = -p * x%d + sin(x%d);\n  yy%d = x%d;\n  zzzz%d = -x%d;\n  w%d = zzzz%d;"
            % (i, i, (i + 1) % n, i, i, i, i, i, i)
            for i in range(n)
        ),
    )


AL_OPTS = {"cache": True, "detect_aliases": True}


def later_calls(folder, name, option_sets):
    """Run transfer_model again, without any concurrency.  Returns list of error strings."""
    from pymoca.backends.casadi.api import transfer_model

    errors = []
    for o in option_sets:
        try:
            m = transfer_model(folder, name, dict(o))
            print("   later call", o, "->", type(m).__name__)
        except BaseException as e:
            msg = "%s: %s" % (type(e).__name__, str(e)[:150])
            print("   later call", o, "-> RAISED", msg)
            errors.append(msg)
    return errors


def part_a():
    import threading

    import casadi as ca

    from pymoca.backends.casadi.api import transfer_model

    n = 300
    folder = tempfile.mkdtemp(prefix="c21_r2a_")
    with open(os.path.join(folder, "Big.mo"), "w") as fh:
        fh.write(big_source(n))
    cache_file = os.path.join(folder, "Big.pymoca_cache")
    X = {"cache": True}
    Y = {"cache": True, "replace_constant_values": True}

    orig = ca.Function.__getstate__
    calls = [0]
    b_error = []

    def b():
        try:
            transfer_model(folder, "Big", dict(Y))
        except BaseException as e:  # pragma: no cover
            b_error.append(e)

    def hooked(self):
        # scheduling only: thread A is preempted when it starts serialising the 2nd function
        if threading.current_thread() is threading.main_thread():
            calls[0] += 1
            if calls[0] == 2:
                t = threading.Thread(target=b)
                t.start()
                t.join()
        return orig(self)

    ca.Function.__getstate__ = hooked
    try:
        transfer_model(folder, "Big", dict(X))
    finally:
        ca.Function.__getstate__ = orig
    print("part A: both overlapping calls returned; cache file", os.path.getsize(cache_file), "bytes")
    errors = [repr(e) for e in b_error]
    errors += later_calls(folder, "Big", [X, Y, X])
    shutil.rmtree(folder, ignore_errors=True)
    return errors


CHILD = r'''
import os, sys, time
sys.path.insert(0, os.environ["PYMOCA_SRC"])
import logging; logging.disable(logging.CRITICAL)
from pymoca.backends.casadi import api
role, folder = sys.argv[1], sys.argv[2]
opts = {"cache": True, "detect_aliases": True}
flag = lambda n: os.path.join(folder, n)
def wait_for(names, timeout=300):
    t0 = time.time()
    while time.time() - t0 < timeout:
        if any(os.path.exists(flag(n)) for n in names):
            return
        time.sleep(0.02)
if role == "A":
    import builtins
    class Proxy:                      # pass-through; pauses once after >= 200000 bytes were written
        def __init__(self, f): self._f, self._n, self._paused = f, 0, False
        def write(self, b):
            r = self._f.write(b); self._f.flush(); self._n += len(b)
            if not self._paused and self._n >= 200000:
                self._paused = True
                open(flag("A_paused"), "w").close()
                wait_for(["B_done"])
            return r
        def __getattr__(self, k): return getattr(self._f, k)
        def __enter__(self): self._f.__enter__(); return self
        def __exit__(self, *a): return self._f.__exit__(*a)
    def my_open(path, mode="r", *a, **k):
        f = builtins.open(path, mode, *a, **k)
        return Proxy(f) if "w" in mode and "b" in mode else f
    api.open = my_open
    api.transfer_model(folder, "Al", dict(opts))
    open(flag("A_done"), "w").close()
else:
    real_save = api.save_model
    def save(*a, **k):                # scheduling only: B saves while A is paused
        wait_for(["A_paused", "A_done"])
        return real_save(*a, **k)
    api.save_model = save
    api.transfer_model(folder, "Al", dict(opts))
    open(flag("B_done"), "w").close()
'''


def part_b():
    folder = tempfile.mkdtemp(prefix="c21_r2b_")
    with open(os.path.join(folder, "Al.mo"), "w") as fh:
        fh.write(alias_source(150))
    child = os.path.join(folder, "child.py")
    with open(child, "w") as fh:
        fh.write(CHILD)
    procs = []
    for role, seed in (("A", "1"), ("B", "4")):
        env = dict(os.environ, PYMOCA_SRC=SRC_DIR, PYTHONHASHSEED=seed)
        procs.append(subprocess.Popen([sys.executable, child, role, folder], env=env))
    rcs = [p.wait() for p in procs]
    print("part B: both overlapping processes finished, exit codes", rcs)
    errors = ["child exit code %d" % rc for rc in rcs if rc != 0]
    errors += later_calls(folder, "Al", [AL_OPTS, AL_OPTS])
    shutil.rmtree(folder, ignore_errors=True)
    return errors


if __name__ == "__main__":
    ea = part_a()
    eb = part_b()
    if ea or eb:
        print("DEFECT: after two overlapping cache writes, later transfer_model calls raise:")
        for e in ea + eb:
            print("   ", e)
        sys.exit(1)
    print("ok")
    sys.exit(0)
