"""C21 repro 1: a reader that is overtaken by an in-place rewrite of the cache file.

Two transfer_model calls on the same folder:
  reader  B  options X = {"cache": True}                      -> a valid cache O for X exists
  writer  A  options Y = X + {"replace_constant_values": True} -> O is invalid for A, so A recompiles
                                                                   and rewrites Big.pymoca_cache IN PLACE
Interleaving: B has read the first part of O (it is inside pickle.load, deserialising the first
CasADi function) when A truncates the file and writes its own cache.  B goes on reading at its
old offset and therefore sees  O[:k] + P_A[k:].

Expected (property C21): B returns a correct model (from cache or by recompiling).
Observed: transfer_model raises UnicodeDecodeError out of pickle.load.

Exit status 1 if the defect manifests, 0 otherwise.
"""
import os
import shutil
import sys
import tempfile
import threading

os.environ.setdefault("XDG_CACHE_HOME", tempfile.mkdtemp(prefix="c21_xdg_"))
sys.path.insert(0, os.environ.get("PYMOCA_SRC", "/tmp/hunt_C21/src"))

import logging  # noqa: E402

import casadi as ca  # noqa: E402

from pymoca.backends.casadi.api import transfer_model  # noqa: E402

logging.disable(logging.CRITICAL)

N = 300
SRC = """model Big
  constant Real k = 2.0;
  parameter Real p = 3.0;
%s
equation
%s
end Big;
""" % (
    "\n".join("  Real x%d(start=%d, nominal=p, max=%d);" % (i, i, i + 100) for i in range(N)),
    "\n".join(
        "  der(x%d) = -k * x%d + p * sin(x%d) + %d;" % (i, i, (i + 1) % N, i) for i in range(N)
    ),
)

folder = tempfile.mkdtemp(prefix="c21_r1_")
with open(os.path.join(folder, "Big.mo"), "w") as fh:
    fh.write(SRC)
cache_file = os.path.join(folder, "Big.pymoca_cache")

X = {"cache": True}
Y = {"cache": True, "replace_constant_values": True}

transfer_model(folder, "Big", dict(X))  # creates the valid cache O for options X
print("cache for X written:", os.path.getsize(cache_file), "bytes")

# Scheduling harness only: the reader thread is 'preempted' while CasADi deserialises the
# first function of the pickle; meanwhile the writer runs to completion in another thread.
orig_setstate = ca.Function.__setstate__
calls = [0]
writer_error = []


def writer():
    try:
        transfer_model(folder, "Big", dict(Y))
    except BaseException as e:  # pragma: no cover
        writer_error.append(e)


def hooked(self, state):
    if threading.current_thread() is threading.main_thread():
        calls[0] += 1
        if calls[0] == 1:
            t = threading.Thread(target=writer)
            t.start()
            t.join()
            print("writer finished, cache file now", os.path.getsize(cache_file), "bytes")
    return orig_setstate(self, state)


ca.Function.__setstate__ = hooked
status = 0
try:
    m = transfer_model(folder, "Big", dict(X))
    ok = len(m.states) == N and len(m.constants) == 1
    print("reader returned", type(m).__name__, "states:", len(m.states), "constants:", len(m.constants))
    if not ok:
        print("DEFECT: reader returned a model that does not belong to its options")
        status = 1
except BaseException as e:
    print("DEFECT: reader's transfer_model raised %s: %s" % (type(e).__name__, str(e)[:200]))
    status = 1
finally:
    ca.Function.__setstate__ = orig_setstate
if writer_error:
    print("DEFECT: writer's transfer_model raised", repr(writer_error[0])[:200])
    status = 1
shutil.rmtree(folder, ignore_errors=True)
print("exit", status)
sys.exit(status)
