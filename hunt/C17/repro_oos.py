"""OUT OF SCOPE for C17 (history relates a variable to its own negation): x = y and x + y = 0
are both swallowed by alias detection; the relation ends up with x in the same set as -x, no
canonical variable, and the model loses two equations while keeping both unknowns."""
import os, sys
sys.path.insert(0, os.environ.get('PYMOCA_SRC', '/tmp/hunt_C17/src'))
os.environ.setdefault('XDG_CACHE_HOME', '/tmp/hunt_C17/scratch/cache')
from pymoca import parser
from pymoca.backends.casadi import generator
txt = """
model M
  Real x; Real y; Real z;
equation
  x = y;
  x + y = 0;
  z = x + 1;
end M;
"""
m = generator.generate(parser.parse(txt), 'M', {'detect_aliases': True})
m.simplify({'detect_aliases': True})
n_eq = sum(e.numel() for e in m.equations); n_var = len(m.alg_states) + len(m.states)
print('equations', m.equations, 'unknowns', [v.symbol.name() for v in m.alg_states])
print('aliases(x) =', sorted(m.alias_relation.aliases('x')), 'iteration =', list(m.alias_relation))
if n_eq != n_var or '-x' in m.alias_relation.aliases('x'):
    print('DEFECT: %d equations for %d unknowns; x aliased to -x' % (n_eq, n_var)); sys.exit(1)
sys.exit(0)
