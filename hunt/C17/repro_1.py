"""C17 / low-confidence: remove() of a non-canonical class member is a silent no-op."""
import os, sys, importlib.util
src = os.environ.get('PYMOCA_SRC', '/tmp/hunt_C17/src')
spec = importlib.util.spec_from_file_location('ar', os.path.join(src, 'pymoca/backends/casadi/alias_relation.py'))
ar = importlib.util.module_from_spec(spec); spec.loader.exec_module(ar)
r = ar.AliasRelation()
r.add('a', 'b')          # class {a, b}, canonical a
r.remove('b')            # ask to remove the class b belongs to
bad = []
if r.aliases('a') != {'a'}: bad.append('aliases(a) = %s after remove(b), expected {a}' % sorted(r.aliases('a')))
if list(r): bad.append('iteration still yields %s' % list(r))
r2 = ar.AliasRelation(); r2.add('a', 'b'); r2.remove('-a')
if r2.aliases('a') != {'a'}: bad.append('aliases(a) = %s after remove(-a), expected {a}' % sorted(r2.aliases('a')))
if bad:
    print('\n'.join(bad)); sys.exit(1)
sys.exit(0)
