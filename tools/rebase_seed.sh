#!/bin/bash
# usage: rebase_seed.sh <seed name>   — re-creates seeded/<name>/patch.diff against /repo's HEAD when a fix: commit changed
# neighbouring lines (context only; `patch -F3`), and notes it in meta.json.  /repo must be clean; it is restored afterwards.
N=$1; D=/verif/seeded/$N
git -C /repo diff --quiet || { echo "repo dirty"; exit 3; }
cd /repo && patch -p1 -F3 --no-backup-if-mismatch < $D/patch.diff >/tmp/rebase.log 2>&1 || { cat /tmp/rebase.log; git -C /repo checkout -- .; exit 1; }
git diff > $D/patch.diff
git checkout -- .
find /repo -name "*.orig" -not -path "*/.git/*" -delete
/venv/bin/python - "$D" <<'P'
import json,sys
p=sys.argv[1]+"/meta.json"; d=json.load(open(p))
d["note"]="patch.diff re-based (context only, `patch -F3`) after later fix: commits in /repo changed neighbouring lines; the seeded change itself is unchanged"
json.dump(d,open(p,"w"),indent=1)
P
echo "rebased $N"
