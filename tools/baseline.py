#!/venv/bin/python
"""Run the repository's baseline test command and compare with BASELINE.json's stable_pass set."""
import json, subprocess, sys, tempfile, os, xml.etree.ElementTree as ET
repo = sys.argv[1] if len(sys.argv) > 1 else "/repo"
base = json.load(open("/root/.vp/BASELINE.json"))
want = set(base["stable_pass"])
fd, path = tempfile.mkstemp(suffix=".xml"); os.close(fd)
env = dict(os.environ); env.pop("PYMOCA_VERIF", None); env["PYTHONPATH"] = os.path.join(repo, "src")
r = subprocess.run(["/venv/bin/python", "-m", "pytest", "-q", "-p", "no:cacheprovider", "--timeout=900", "--continue-on-collection-errors", "-x" if False else "-q", "--junitxml=" + path], cwd=repo, capture_output=True, text=True, env=env)
passed = set()
for tc in ET.parse(path).getroot().iter("testcase"):
    if not any(ch.tag in ("failure", "error", "skipped") for ch in tc):
        passed.add("%s::%s" % (tc.get("classname"), tc.get("name")))
os.remove(path)
missing = sorted(want - passed)
print("passed=%d baseline=%d missing=%d extra_passing=%d" % (len(passed), len(want), len(missing), len(passed - want)))
for m in missing: print("  MISSING", m)
sys.exit(1 if missing else 0)
