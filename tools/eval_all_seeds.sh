#!/bin/bash
# Applies every kept seeded change to /repo in turn (git apply; checks; git checkout -- .) and verifies that the check of
# the property it breaks exits 1 with a VIOLATION line.  Also runs the unchanged tree first (all must exit 0).
cd /verif
fail=0
if ! git -C /repo diff --quiet; then echo "repo dirty"; exit 3; fi
for d in seeded/*/; do
  name=$(basename $d); prop=${name%%-*}
  git -C /repo apply /verif/$d/patch.diff || { echo "$name: patch does not apply"; fail=1; continue; }
  out=$(/venv/bin/python check.py --property $prop --tier quick --no-evidence 2>&1); rc=$?
  git -C /repo checkout -- .
  rule=$(echo "$out" | grep -m1 "^FAIL" | cut -d' ' -f2)
  if [ $rc -eq 1 ] && echo "$out" | grep -q "^VIOLATION property=$prop"; then echo "caught  $name ($prop $rule)"; else echo "MISSED  $name ($prop exit=$rc)"; fail=1; fi
done
exit $fail
