#!/bin/bash
# usage: eval_refactor.sh <round> <PROP> [nameA nameB] — applies refA.diff / refB.diff of /tmp/ref<r>_<PROP> in that worktree, runs the baseline
# suite and ALL quick checks against it (--repo), prints every check that does not exit 0.  With names, the diffs are kept as
# /verif/refactorings/<PROP>-<name>/patch.diff (+ NOTES.md).
R=$1; P=$2; W=/tmp/ref${R}_$P
for X in A B; do
  N=$3; [ $X = B ] && N=$4
  F=$W/ref$X.diff
  [ -f $F ] || { echo "$P $X: no diff"; continue; }
  git -C $W checkout -q -- src tools
  git -C $W apply $F || { echo "$P $X: does not apply"; continue; }
  SUITE=$(/venv/bin/python /verif/tools/baseline.py $W 2>/dev/null | head -1)
  bad=""
  for q in $(/venv/bin/python -c "import sys; sys.path.insert(0,'/verif'); from sa.props import _IDS; print(' '.join(_IDS))"); do
    out=$(cd /verif && /venv/bin/python check.py --property $q --tier quick --no-evidence --repo $W 2>&1); rc=$?
    if [ $rc -ne 0 ]; then bad="$bad $q(exit=$rc)"; echo "$out" | grep -E "^(FAIL|ANALYSIS)" | grep -v KNOWN | cut -c1-230 | sed "s/^/    [$P $X $q] /"; fi
  done
  echo "$P $X ${N:-} | suite: $SUITE | alarms:${bad:- none}"
  if [ -n "$N" ]; then mkdir -p /verif/refactorings/$P-$N; cp $F /verif/refactorings/$P-$N/patch.diff; [ -f $W/NOTES.md ] && cp $W/NOTES.md /verif/refactorings/$P-$N/NOTES.md; fi
  git -C $W checkout -q -- src tools
done
