#!/bin/bash
# usage: ts.sh <seed-name> : apply to scratch copy and run own property's check
n=$1; p=${n%%-*}
d=$(mktemp -d /tmp/ts_XXXX); rsync -a --exclude .git --exclude '*.jar' /repo/ $d/; (cd $d && git apply /verif/seeded/$n/patch.diff) || echo "apply failed"
cd /verif; /venv/bin/python check.py --property ${2:-$p} --tier quick --no-evidence --repo $d | grep -E "^(FAIL|OK|ANALYSIS)" | cut -c1-260 | head -${3:-6}
rm -rf $d
