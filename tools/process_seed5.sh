#!/bin/bash
# usage: process_seed5.sh <PROP> <nameA> <nameB>   (names without the property prefix)
P=$1; W=/tmp/seed5_$P
for X in A B; do
  N=$2; [ $X = B ] && N=$3
  [ -z "$N" ] && continue
  NAME=$P-$N
  if [ ! -f $W/seed$X.diff ] || [ ! -f $W/demo$X.py ]; then echo "$NAME: deliverables missing"; continue; fi
  r=$(/verif/tools/confirm_seed2.sh $W $P $NAME $W/seed$X.diff $W/demo$X.py 2>&1 | tail -1)
  # evaluate in the agent's own worktree (parallel-safe; /repo is not touched)
  git -C $W apply /verif/seeded/$NAME/patch.diff
  out=$(cd /verif && /venv/bin/python check.py --property $P --tier quick --no-evidence --repo $W 2>&1); rc="exit=$?"
  git -C $W apply -R /verif/seeded/$NAME/patch.diff
  echo "$NAME | $r | check $rc $(echo "$out" | grep -v KNOWN | grep -m1 '^FAIL' | cut -c1-120)"
done
