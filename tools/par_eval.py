#!/venv/bin/python
"""Parallel evaluation of the kept seeded changes and refactorings on scratch copies of /repo (never touches /repo itself).

usage: par_eval.py seeds [prefix]         every seeded/<name> must be caught by the check of its own property (exit 1 + VIOLATION line)
       par_eval.py refactorings [prefix]  every refactorings/<name> must leave ALL quick checks silent (exit 0)
Scratch copies live under /tmp/pe_* and are removed as soon as the case is done.
"""
import concurrent.futures as cf
import os
import shutil
import subprocess
import sys
import tempfile

VERIF = "/verif"
REPO = "/repo"
sys.path.insert(0, VERIF)
from sa.props import _IDS  # noqa: E402

PY = "/venv/bin/python"


def scratch(patch):
    d = tempfile.mkdtemp(prefix="pe_", dir="/tmp")
    subprocess.run(["rsync", "-a", "--exclude", ".git", "--exclude", "*.jar", "--exclude", "__pycache__", REPO + "/", d + "/"], check=True)
    r = subprocess.run(["git", "apply", patch], cwd=d, capture_output=True, text=True)
    if r.returncode != 0:
        shutil.rmtree(d, ignore_errors=True)
        return None
    return d


def run_check(prop, d):
    r = subprocess.run([PY, "check.py", "--property", prop, "--tier", "quick", "--no-evidence", "--repo", d], cwd=VERIF,
                       capture_output=True, text=True)
    return r.returncode, r.stdout + r.stderr


def seed(name):
    prop = name.split("-")[0]
    d = scratch(os.path.join(VERIF, "seeded", name, "patch.diff"))
    if d is None:
        return name, False, "patch does not apply"
    try:
        rc, out = run_check(prop, d)
        rule = next((ln.split()[1] for ln in out.splitlines() if ln.startswith("FAIL")), "")
        ok = rc == 1 and ("VIOLATION property=%s" % prop) in out
        return name, ok, "%s %s" % (prop, rule) if ok else "%s exit=%d" % (prop, rc)
    finally:
        shutil.rmtree(d, ignore_errors=True)


def refactoring(name):
    d = scratch(os.path.join(VERIF, "refactorings", name, "patch.diff"))
    if d is None:
        return name, False, "patch does not apply"
    try:
        bad = []
        for q in _IDS:
            rc, out = run_check(q, d)
            if rc != 0:
                lines = [ln[:200] for ln in out.splitlines() if ln.startswith(("FAIL", "ANALYSIS"))]
                bad.append("%s: %s" % (q, " | ".join(lines[:3])))
        return name, not bad, "; ".join(bad)
    finally:
        shutil.rmtree(d, ignore_errors=True)


def main():
    kind = sys.argv[1]
    prefix = sys.argv[2] if len(sys.argv) > 2 else ""
    base = "seeded" if kind == "seeds" else "refactorings"
    names = sorted(n for n in os.listdir(os.path.join(VERIF, base)) if n.startswith(prefix) and os.path.isdir(os.path.join(VERIF, base, n)))
    fn = seed if kind == "seeds" else refactoring
    fail = 0
    with cf.ThreadPoolExecutor(max_workers=int(os.environ.get("JOBS", "16"))) as ex:
        for name, ok, info in ex.map(fn, names):
            if kind == "seeds":
                print(("caught  %s (%s)" if ok else "MISSED  %s (%s)") % (name, info))
            else:
                print("silent  %s" % name if ok else "ALARM   %s: %s" % (name, info))
            fail |= not ok
    print("%d cases, %s" % (len(names), "all as expected" if not fail else "FAILURES"))
    sys.exit(1 if fail else 0)


if __name__ == "__main__":
    main()
