#!/venv/bin/python
"""make_refactor_round.py <round-number> [Cxx ...] — like make_seed_round.py, but the sub-agents are asked for behaviour-PRESERVING
refactorings of the code a property is anchored in.  Every check must stay silent on them: a VIOLATION on such a change is a false
alarm of the machinery (to be corrected in the machinery), unless the refactoring turns out not to preserve behaviour.
Worktrees: /tmp/ref<r>_<Cxx>; prompts: /tmp/refprompt<r>_<Cxx>.txt; deliverables refA.diff, refB.diff, NOTES.md.
Evaluate with tools/eval_refactor.sh <r> <Cxx>."""
import json, subprocess, sys
r = sys.argv[1]
only = sys.argv[2:]
props = {}
for l in open('/verif/properties.jsonl'):
    d = json.loads(l); props[d['id']] = d
ids = [p for p in props if p not in ('C14',) and (not only or p in only)]
import glob, os
done = {}
for d in sorted(glob.glob('/verif/refactorings/*/')):
    name = os.path.basename(d.rstrip('/'))
    done.setdefault(name.split('-')[0], []).append(name.split('-', 1)[1].replace('-', ' '))
for pid in ids:
    d = props[pid]
    W = "/tmp/ref%s_%s" % (r, pid)
    subprocess.run(['git', '-C', '/repo', 'worktree', 'add', '--detach', '-f', W, 'HEAD'], capture_output=True)
    txt = f"""You are helping to evaluate a verification tool for an open-source Python project (pymoca, a Modelica-to-CAS translator).
The tool must NOT raise an alarm when code is changed without changing its behaviour.  Your job: make TWO DIFFERENT realistic,
behaviour-PRESERVING refactorings (call them A and B) of the code the property below is anchored in — the kind of change a maintainer
makes in a clean-up pull request.  You work ONLY inside your own scratch git worktree: {W}
(run python as `PYTHONPATH={W}/src /venv/bin/python ...`; casadi, sympy, antlr4 runtime, lxml, numpy are installed; no network).
Do not read or write anything under /verif or /repo.  NEVER use `git stash` (the stash is shared with other worktrees).
The parse cache in ~/.cache/pymoca is shared between checkouts: pass bypass_cache=True to parser.parse or set XDG_CACHE_HOME
to a private directory in your scripts.

THE PROPERTY ({pid}): {d['title']}
Statement: {d['statement']}
Code it is anchored in: {json.dumps(d['anchors']['mechanism'])}

REQUIREMENTS FOR EACH OF THE TWO REFACTORINGS
1. It edits the project's source under src/ or tools/ (not tests) inside or right next to the anchored code, 5-60 changed lines.
2. It preserves behaviour for EVERY input, not only for the tests: same results, same exceptions, same side effects, same order of
   everything observable.  Be careful and conservative — if you are not sure a rewrite is exactly equivalent, choose another one.
   In NOTES.md give a short argument (3-6 lines) why it is equivalent.
3. Use DIFFERENT kinds of refactoring for A and B, chosen from things like: restructure conditionals (guard clauses <-> nested ifs,
   if/elif <-> dictionary dispatch, merge/split conditions, De Morgan), rename locals/helpers, extract a helper function or method /
   inline a trivial one, loop <-> comprehension, introduce/remove explanatory temporaries, replace an idiom by an equivalent one
   (`x += [a]` <-> `x.append(a)`, `dict.get` <-> `in` test, `%`-format <-> str.format <-> f-string, `len(x) == 0` <-> `not x` for lists),
   reorder statements that are provably independent, hoist a loop-invariant pure expression, split a long function into two.
4. The project's test-suite still passes: run
   `cd {W} && PYTHONPATH={W}/src /venv/bin/python -m pytest -q -p no:cacheprovider --timeout=900 --continue-on-collection-errors -q`
   (20 failures and several collection errors are pre-existing; the set of PASSING tests must not shrink; the authoritative list
   of tests that must pass is "stable_pass" in /root/.vp/BASELINE.json).
5. Deliverables, all in {W}: refA.diff (output of `git diff -- src tools` with only A applied), refB.diff (only B applied), NOTES.md
   (what each refactoring is, the equivalence argument, suite result).  At the end leave the worktree CLEAN (`git checkout -- src tools`).
   If the Write tool refuses a .md file, create it with a shell here-document.
6. In your final answer give each refactoring a short kebab-case name (3-6 words).

REFACTORINGS ALREADY DONE FOR THIS PROPERTY IN EARLIER ROUNDS — choose other functions of the anchored code and/or other kinds of refactoring:
{chr(10).join('- ' + t for t in done.get(pid, [])) or '- (none)'}

Keep your final answer short (under 200 words): for A and for B, the name, the kind of refactoring, the function(s) touched, the suite result.
"""
    open('/tmp/refprompt%s_%s.txt' % (r, pid), 'w').write(txt)
print(len(ids), "prompts written")
