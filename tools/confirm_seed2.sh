#!/bin/bash
# usage: confirm_seed2.sh <worktree> <PROP> <name> <patch file> <demo file>
# Like confirm_seed.sh, for agents that deliver several patches as files and leave their worktree clean.
W=$1; P=$2; NAME=$3; PATCH=$4; DEMO=$5
cd $W || exit 3
git diff --quiet -- src tools || { echo "worktree not clean"; git checkout -- src tools; }
git apply $PATCH || { echo "patch does not apply"; exit 3; }
run_demo() { PYTHONPATH=$W/src XDG_CACHE_HOME=$W/.xdg timeout 600 /venv/bin/python $DEMO >/tmp/demo_$NAME.out 2>&1; echo $?; }
git diff -- src tools > /tmp/patch_$NAME.diff
SUITE=$(/venv/bin/python /verif/tools/baseline.py $W | head -1)
WITH=$(run_demo)
git apply -R /tmp/patch_$NAME.diff || { echo "cannot reverse patch"; exit 3; }
WITHOUT=$(run_demo)
echo "suite: $SUITE | demo with change exit=$WITH | without exit=$WITHOUT"
mkdir -p /verif/seeded/$NAME
cp /tmp/patch_$NAME.diff /verif/seeded/$NAME/patch.diff
cp $DEMO /verif/seeded/$NAME/demo_seed.py
[ -f NOTES.md ] && cp NOTES.md /verif/seeded/$NAME/NOTES.md
echo "$SUITE|$WITH|$WITHOUT" > /verif/seeded/$NAME/.confirm
rm -f /tmp/patch_$NAME.diff /tmp/demo_$NAME.out
