#!/venv/bin/python
"""Writes reference/functions.json: the qualified names (function / Class.method) of every module-level function and method of the
analysed pymoca sources on the CURRENT tree.  sa/inline_helpers.py treats every function that is not listed there as a helper that
was extracted later and inlines it into its callers before the rules run.  Re-run after a fix: commit that adds functions."""
import ast, glob, json, os, sys
sys.path.insert(0, os.path.join(os.path.dirname(os.path.abspath(__file__)), ".."))
from sa.inline_helpers import all_qualnames
REPO = "/repo"
files = sorted(p[len(REPO) + 1:] for p in glob.glob(REPO + "/src/pymoca/**/*.py", recursive=True) if "/generated/" not in p) + ["tools/compiler.py"]
out = {}
for rel in files:
    mod = ast.parse(open(os.path.join(REPO, rel), encoding="utf-8").read())
    out[rel] = sorted(all_qualnames(mod))
json.dump(out, open(os.path.join(os.path.dirname(os.path.abspath(__file__)), "..", "reference", "functions.json"), "w"), indent=0, sort_keys=True)
print(sum(len(v) for v in out.values()), "functions in", len(out), "files")
# module-level (and class-level) assigned names: a constant that is NOT listed here was hoisted out of a function later and is put back
names = {}
for rel in files:
    mod = ast.parse(open(os.path.join(REPO, rel), encoding="utf-8").read())
    ns = set()
    for st in mod.body:
        for t in (st.targets if isinstance(st, ast.Assign) else [st.target] if isinstance(st, (ast.AnnAssign, ast.AugAssign)) else []):
            for x in ast.walk(t):
                if isinstance(x, ast.Name):
                    ns.add(x.id)
    for c in ast.walk(mod):
        if isinstance(c, ast.ClassDef):
            for st in c.body:
                for t in (st.targets if isinstance(st, ast.Assign) else [st.target] if isinstance(st, (ast.AnnAssign, ast.AugAssign)) else []):
                    for x in ast.walk(t):
                        if isinstance(x, ast.Name):
                            ns.add(c.name + "." + x.id)
    names[rel] = sorted(ns)
json.dump(names, open(os.path.join(os.path.dirname(os.path.abspath(__file__)), "..", "reference", "module_names.json"), "w"), indent=0, sort_keys=True)
print(sum(len(v) for v in names.values()), "module-level names")
