#!/venv/bin/python
"""Robustness of the rules against a behaviour-preserving refactoring (developer tool, not a registered check).

Every function of the analysed pymoca sources gets all of its *local variables* renamed (`x` -> `x_rn`; parameters,
globals, attributes and keyword names are left alone), the result is handed to the rules as an in-memory overlay and
every property is evaluated again.  A rule that now reports something it does not report on the unchanged tree depends on
a local name: a false alarm in waiting.  Usage:

    tools/rename_robustness.py [--emit DIR] [Cxx ...]

--emit DIR writes the renamed sources into DIR (a scratch copy of /repo made by the caller) so that the repository's
own suite can be run on them once, to confirm that the renaming itself preserves behaviour.
"""
import ast
import os
import sys

sys.path.insert(0, os.path.join(os.path.dirname(os.path.abspath(__file__)), ".."))

from sa import props  # noqa: E402
from sa.engine import Context, run_rules, load_known, match_known  # noqa: E402

REPO = os.environ.get("VERIF_REPO", "/repo")
SUFFIX = os.environ.get("RN_SUFFIX", "_rn")
FILES = [
    "tools/compiler.py", "src/pymoca/parser.py", "src/pymoca/tree.py", "src/pymoca/ast.py", "src/pymoca/__main__.py",
    "src/pymoca/backends/casadi/generator.py", "src/pymoca/backends/casadi/model.py", "src/pymoca/backends/casadi/api.py",
    "src/pymoca/backends/casadi/alias_relation.py", "src/pymoca/backends/casadi/mtensor.py",
    "src/pymoca/backends/casadi/_options.py",
    "src/pymoca/backends/sympy/generator.py", "src/pymoca/backends/xml/generator.py", "src/pymoca/backends/xml/parser.py",
    "src/pymoca/backends/xml/model.py", "src/pymoca/backends/xml/sim_scipy.py", "src/pymoca/backends/xml/analysis.py",
]

SCOPES = (ast.FunctionDef, ast.AsyncFunctionDef, ast.Lambda)


def _params(fn):
    a = fn.args
    out = {x.arg for x in a.posonlyargs + a.args + a.kwonlyargs}
    if a.vararg:
        out.add(a.vararg.arg)
    if a.kwarg:
        out.add(a.kwarg.arg)
    return out


def _own_nodes(fn):
    """nodes of fn's body that belong to fn's scope or to comprehension scopes nested in it (not nested defs/lambdas/classes)"""
    stack = list(fn.body) if not isinstance(fn, ast.Lambda) else [fn.body]
    while stack:
        n = stack.pop()
        yield n
        if isinstance(n, SCOPES + (ast.ClassDef,)):
            continue
        stack.extend(ast.iter_child_nodes(n))


def _locals(fn):
    declared, bound, imported = set(), set(), set()
    comp_targets = set()
    for n in _own_nodes(fn):
        if isinstance(n, (ast.Global, ast.Nonlocal)):
            declared |= set(n.names)
        elif isinstance(n, ast.Name) and isinstance(n.ctx, (ast.Store, ast.Del)):
            bound.add(n.id)
        elif isinstance(n, (ast.Import, ast.ImportFrom)):
            imported |= {(a.asname or a.name).split(".")[0] for a in n.names}
        elif isinstance(n, ast.ExceptHandler) and n.name:
            bound.add(n.name)
        elif isinstance(n, (ast.FunctionDef, ast.AsyncFunctionDef, ast.ClassDef)):
            imported.add(n.name)  # nested definitions keep their names
    return bound - declared - imported - _params(fn) - comp_targets


def _rename(fn, names):
    """rename every occurrence of `names` inside fn, including nested scopes unless they rebind the name as a parameter"""
    def walk(n, active):
        if isinstance(n, SCOPES) and n is not fn:
            active = active - _params(n)
            if not isinstance(n, ast.Lambda):
                # a nested def that assigns the name without nonlocal has its own variable
                own = _locals(n)
                nonloc = set()
                for m in _own_nodes(n):
                    if isinstance(m, ast.Nonlocal):
                        nonloc |= set(m.names)
                active = active - (own - nonloc)
        if isinstance(n, ast.Name) and n.id in active:
            n.id = n.id + SUFFIX
        elif isinstance(n, ast.ExceptHandler) and n.name in active:
            n.name = n.name + SUFFIX
        elif isinstance(n, ast.Nonlocal):
            n.names = [x + SUFFIX if x in active else x for x in n.names]
        for c in ast.iter_child_nodes(n):
            walk(c, active)
    if isinstance(fn, ast.Lambda):
        return
    for st in fn.body:
        walk(st, set(names))
    # defaults/decorators are evaluated in the enclosing scope: untouched


def flipped_source(src):
    """every plain `if T: A else: B` becomes `if not T: B else: A`: same behaviour, other shape"""
    mod = ast.parse(src)
    count = 0
    for n in ast.walk(mod):
        # plain if/else only: nobody rewrites an elif chain inside out
        if isinstance(n, ast.If) and n.orelse and not (len(n.orelse) == 1 and isinstance(n.orelse[0], ast.If)) \
                and not (len(n.body) == 1 and isinstance(n.body[0], ast.If) and n.body[0].orelse):
            t = n.test
            n.test = t.operand if isinstance(t, ast.UnaryOp) and isinstance(t.op, ast.Not) else ast.UnaryOp(op=ast.Not(), operand=t)
            n.body, n.orelse = n.orelse, n.body
            count += 1
    return ast.unparse(ast.fix_missing_locations(mod)), count


def extend_source(src):
    """`xs += [a, b]` / `xs += [f(e) for e in es]` become `xs.extend(...)`: the same for lists, another statement shape"""
    mod = ast.parse(src)
    count = 0

    class T(ast.NodeTransformer):
        def visit_AugAssign(self, n):
            nonlocal count
            listy = isinstance(n.value, (ast.List, ast.ListComp)) or (isinstance(n.target, ast.Attribute) and n.target.attr in (
                "equations", "initial_equations", "statements", "initial_statements", "arguments", "extends", "indices", "child"))
            if isinstance(n.op, ast.Add) and listy and isinstance(n.target, (ast.Name, ast.Attribute)):
                count += 1
                tgt = ast.parse(ast.unparse(n.target), mode="eval").body
                return ast.Expr(value=ast.Call(func=ast.Attribute(value=tgt, attr="extend", ctx=ast.Load()), args=[n.value], keywords=[]))
            return n

    mod = T().visit(mod)
    return ast.unparse(ast.fix_missing_locations(mod)), count


def inline_source(src):
    """a local that is bound once (`t = <expr>`) and read once, in the very next statement, is replaced by its value there"""
    mod = ast.parse(src)
    count = 0
    for fn in [n for n in ast.walk(mod) if isinstance(n, (ast.FunctionDef, ast.AsyncFunctionDef))]:
        stores, loads = {}, {}
        for n in ast.walk(fn):
            if isinstance(n, ast.Name):
                (stores if isinstance(n.ctx, (ast.Store, ast.Del)) else loads).setdefault(n.id, []).append(n)
        params = _params(fn)
        for node in ast.walk(fn):
            for fld in ("body", "orelse", "finalbody"):
                b = getattr(node, fld, None)
                if not isinstance(b, list):
                    continue
                i = 0
                while i + 1 < len(b):
                    st, nxt = b[i], b[i + 1]
                    if isinstance(st, ast.Assign) and len(st.targets) == 1 and isinstance(st.targets[0], ast.Name):
                        v = st.targets[0].id
                        if v not in params and len(stores.get(v, [])) == 1 and len(loads.get(v, [])) == 1 and not isinstance(st.value, (ast.Lambda, ast.Yield, ast.Await)) \
                                and isinstance(nxt, (ast.Assign, ast.Expr, ast.Return, ast.AugAssign)):
                            use = loads[v][0]
                            inside = any(x is use for x in ast.walk(nxt))
                            in_nested = any(isinstance(x, (ast.Lambda, ast.ListComp, ast.GeneratorExp, ast.SetComp, ast.DictComp, ast.FunctionDef)) and any(y is use for y in ast.walk(x))
                                            for x in ast.walk(nxt))
                            if inside and not in_nested:
                                class R(ast.NodeTransformer):
                                    def visit_Name(self, n, _u=use, _val=st.value):
                                        return _val if n is _u else n
                                b[i + 1] = R().visit(nxt)
                                del b[i]
                                count += 1
                                continue
                    i += 1
    return ast.unparse(ast.fix_missing_locations(mod)), count


def extract_source(src):
    """`obj.attr = <expr>` / `obj[k] = <expr>` / `return <call>` get a temporary: `tmp = <expr>; obj.attr = tmp`"""
    mod = ast.parse(src)
    count = 0
    for fn in [n for n in ast.walk(mod) if isinstance(n, (ast.FunctionDef, ast.AsyncFunctionDef))]:
        is_gen = any(isinstance(x, (ast.Yield, ast.YieldFrom)) for x in ast.walk(fn))
        for node in ast.walk(fn):
            for fld in ("body", "orelse", "finalbody"):
                b = getattr(node, fld, None)
                if not isinstance(b, list):
                    continue
                out = []
                for st in b:
                    v = getattr(st, "value", None)
                    if isinstance(st, ast.Assign) and len(st.targets) == 1 and isinstance(st.targets[0], (ast.Attribute, ast.Subscript)) \
                            and not isinstance(v, (ast.Name, ast.Constant)) or (isinstance(st, ast.Return) and isinstance(v, ast.Call) and not is_gen):
                        count += 1
                        name = "tmp%d%s" % (count, SUFFIX)
                        out.append(ast.Assign(targets=[ast.Name(id=name, ctx=ast.Store())], value=v))
                        st.value = ast.Name(id=name, ctx=ast.Load())
                    out.append(st)
                b[:] = out
    return ast.unparse(ast.fix_missing_locations(mod)), count


def outline_source(src):
    """extract-function, mechanically: in every module-level function / method with enough top-level statements one contiguous block of
    top-level statements is moved into a new helper (`_<name>_part`), which gets the locals the block reads as parameters and returns the
    locals it binds that are read afterwards.  RN_OUTLINE=first|middle|last picks where in the body the block is taken from."""
    where = os.environ.get("RN_OUTLINE", "middle")
    mod = ast.parse(src)
    count = 0

    def top_bound(st):
        out = set()
        if isinstance(st, ast.Assign):
            for t in st.targets:
                out |= {n.id for n in ast.walk(t) if isinstance(n, ast.Name)}
        elif isinstance(st, (ast.AnnAssign, ast.AugAssign)) and isinstance(st.target, ast.Name) and (not isinstance(st, ast.AnnAssign) or st.value is not None):
            out.add(st.target.id)
        elif isinstance(st, (ast.Import, ast.ImportFrom)):
            out |= {(a.asname or a.name).split(".")[0] for a in st.names}
        elif isinstance(st, (ast.FunctionDef, ast.AsyncFunctionDef, ast.ClassDef)):
            out.add(st.name)
        elif isinstance(st, ast.With):
            for it in st.items:
                if it.optional_vars is not None:
                    out |= {n.id for n in ast.walk(it.optional_vars) if isinstance(n, ast.Name)}
            for b in st.body:
                out |= top_bound(b)
        elif isinstance(st, ast.If) and st.orelse:
            a, b = set(), set()
            for x in st.body:
                a |= top_bound(x)
            for x in st.orelse:
                b |= top_bound(x)
            out |= a & b
        return out

    def process(fn, owner):
        nonlocal count
        if fn.decorator_list and any(isinstance(d, ast.Name) and d.id in ("staticmethod", "classmethod") for d in fn.decorator_list):
            return None
        if any(isinstance(x, (ast.Yield, ast.YieldFrom, ast.Await, ast.Global, ast.Nonlocal)) for x in ast.walk(fn)):
            return None
        if any(isinstance(x, ast.Call) and isinstance(x.func, ast.Name) and x.func.id in ("locals", "vars", "super", "eval", "exec") for x in ast.walk(fn)):
            return None
        body = fn.body
        start0 = 1 if body and isinstance(body[0], ast.Expr) and isinstance(body[0].value, ast.Constant) else 0
        n = len(body)
        if n - start0 < 5:
            return None
        params = _params(fn)
        locs = _locals(fn) | params
        # names bound by nested definitions and function-level imports are locals as well (a block that uses them needs them handed in)
        for x in _own_nodes(fn):
            if isinstance(x, (ast.FunctionDef, ast.AsyncFunctionDef, ast.ClassDef)):
                locs.add(x.name)
            elif isinstance(x, (ast.Import, ast.ImportFrom)):
                locs |= {(a.asname or a.name).split(".")[0] for a in x.names}
        is_method = owner is not None
        selfname = fn.args.args[0].arg if is_method and fn.args.args else None
        if is_method and selfname is None:
            return None
        maxlen = max(2, (n - start0) // 2)
        cands = [(i, j) for i in range(start0, n) for j in range(i + 2, min(n, i + maxlen) + 1)]
        if where == "first":
            cands.sort(key=lambda ij: (ij[0], -(ij[1] - ij[0])))
        elif where == "last":
            cands.sort(key=lambda ij: (-ij[1], -(ij[1] - ij[0])))
        else:
            mid = (start0 + n) / 2
            cands.sort(key=lambda ij: (abs((ij[0] + ij[1]) / 2 - mid), -(ij[1] - ij[0])))
        for i, j in cands:
            block = body[i:j]
            if any(isinstance(x, (ast.Return, ast.FunctionDef, ast.AsyncFunctionDef, ast.ClassDef, ast.Lambda, ast.Delete, ast.Try)) for st in block for x in ast.walk(st)):
                continue
            if j >= n:
                continue  # keep the function's tail (its return) in place
            before_def = set(params)
            for st in body[:i]:
                before_def |= top_bound(st)
            loaded = {x.id for st in block for x in ast.walk(st) if isinstance(x, ast.Name) and isinstance(x.ctx, ast.Load)}
            stored = {x.id for st in block for x in ast.walk(st) if isinstance(x, ast.Name) and isinstance(x.ctx, (ast.Store, ast.Del))}
            stored |= {(a.asname or a.name).split(".")[0] for st in block for x in ast.walk(st) if isinstance(x, (ast.Import, ast.ImportFrom)) for a in x.names}
            # comprehension targets are stored names too but stay local to the comprehension: harmless over-approximation
            block_def = set()
            for st in block:
                block_def |= top_bound(st)
            aug = {x.target.id for st in block for x in ast.walk(st) if isinstance(x, ast.AugAssign) and isinstance(x.target, ast.Name)}
            bound_anywhere_before = set(params)
            for st in body[:i]:
                bound_anywhere_before |= {x.id for x in ast.walk(st) if isinstance(x, ast.Name) and isinstance(x.ctx, ast.Store)}
                bound_anywhere_before |= {x.name for x in ast.walk(st) if isinstance(x, (ast.FunctionDef, ast.AsyncFunctionDef, ast.ClassDef))}
                bound_anywhere_before |= {(a.asname or a.name).split(".")[0] for x in ast.walk(st) if isinstance(x, (ast.Import, ast.ImportFrom)) for a in x.names}
                bound_anywhere_before |= top_bound(st)
            # every local the block reads (or augments) that may have a value when the block starts is handed in; it must then
            # definitely have one
            after_loaded0 = {x.id for st in body[j:] for x in ast.walk(st) if isinstance(x, ast.Name) and isinstance(x.ctx, ast.Load)}
            # a local that the block may or may not rebind and that is read afterwards has to flow through the helper
            passthrough = {v for v in (stored & locs & after_loaded0) if v not in block_def}
            inputs = sorted(((loaded | aug | passthrough) & locs) & bound_anywhere_before)
            if any(v not in before_def for v in inputs):
                continue
            # a local read in the block that has no binding before it must be bound by the block itself at top level
            if any(v not in block_def for v in ((loaded & locs) - bound_anywhere_before)
                   if v not in {x.id for st in block for c in ast.walk(st) if isinstance(c, (ast.ListComp, ast.SetComp, ast.DictComp, ast.GeneratorExp, ast.For))
                                for x in ast.walk(c) if isinstance(x, ast.Name) and isinstance(x.ctx, ast.Store)}):
                continue
            after_loaded = {x.id for st in body[j:] for x in ast.walk(st) if isinstance(x, ast.Name) and isinstance(x.ctx, ast.Load)}
            outputs = sorted((stored & locs) & after_loaded)
            if any(v not in block_def and v not in before_def for v in outputs):
                continue
            if selfname in stored:
                continue
            count += 1
            hname = "_%s_part%d" % (fn.name.strip("_"), count)
            args = ([ast.arg(arg=selfname)] if is_method else []) + [ast.arg(arg=v) for v in inputs if v != selfname]
            ret = []
            if outputs:
                ret = [ast.Return(value=ast.Tuple(elts=[ast.Name(id=v, ctx=ast.Load()) for v in outputs], ctx=ast.Load()) if len(outputs) > 1 else ast.Name(id=outputs[0], ctx=ast.Load()))]
            helper = ast.FunctionDef(name=hname, args=ast.arguments(posonlyargs=[], args=args, vararg=None, kwonlyargs=[], kw_defaults=[], kwarg=None, defaults=[]),
                                     body=block + ret, decorator_list=[], returns=None, type_comment=None, type_params=[])
            callee = ast.Attribute(value=ast.Name(id=selfname, ctx=ast.Load()), attr=hname, ctx=ast.Load()) if is_method else ast.Name(id=hname, ctx=ast.Load())
            call = ast.Call(func=callee, args=[ast.Name(id=v, ctx=ast.Load()) for v in inputs if v != selfname], keywords=[])
            if not outputs:
                site = ast.Expr(value=call)
            elif len(outputs) == 1:
                site = ast.Assign(targets=[ast.Name(id=outputs[0], ctx=ast.Store())], value=call)
            else:
                site = ast.Assign(targets=[ast.Tuple(elts=[ast.Name(id=v, ctx=ast.Store()) for v in outputs], ctx=ast.Store())], value=call)
            fn.body[i:j] = [site]
            return helper
        return None

    new_body = []
    for st in mod.body:
        if isinstance(st, ast.FunctionDef):
            h = process(st, None)
            if h is not None:
                new_body.append(h)
            new_body.append(st)
        elif isinstance(st, ast.ClassDef):
            extra = []
            for m in list(st.body):
                if isinstance(m, ast.FunctionDef):
                    h = process(m, st)
                    if h is not None:
                        extra.append(h)
            st.body.extend(extra)
            new_body.append(st)
        else:
            new_body.append(st)
    mod.body = new_body
    return ast.unparse(ast.fix_missing_locations(mod)), count


def renamed_source(src):
    if os.environ.get("RN_TRANSFORM") == "outline":
        return outline_source(src)
    if os.environ.get("RN_TRANSFORM") == "extract":
        return extract_source(src)
    if os.environ.get("RN_TRANSFORM") == "inline":
        return inline_source(src)
    if os.environ.get("RN_TRANSFORM") == "flip":
        return flipped_source(src)
    if os.environ.get("RN_TRANSFORM") == "extend":
        return extend_source(src)
    mod = ast.parse(src)
    count = 0
    # outermost functions first; nested functions are handled when met on their own (their own locals)
    for fn in [n for n in ast.walk(mod) if isinstance(n, (ast.FunctionDef, ast.AsyncFunctionDef))]:
        names = {x for x in _locals(fn) if not x.endswith(SUFFIX) and not (x.startswith("__") and x.endswith("__"))}
        # a class-body name or module global with the same name is unaffected: locals shadow them
        if names:
            _rename(fn, names)
            count += len(names)
    return ast.unparse(ast.fix_missing_locations(mod)), count


def main(argv):
    emit = None
    if argv[:1] == ["--emit"]:
        emit = argv[1]
        argv = argv[2:]
    overlay, total = {}, 0
    for rel in FILES:
        p = os.path.join(REPO, rel)
        if not os.path.exists(p):
            continue
        with open(p) as f:
            new, k = renamed_source(f.read())
        overlay[rel] = new
        total += k
    print("renamed %d local variables in %d files" % (total, len(overlay)))
    if emit:
        for rel, s in overlay.items():
            with open(os.path.join(emit, rel), "w") as f:
                f.write(s + "\n")
        print("emitted into", emit)
        return 0
    known = load_known(os.path.join(os.path.dirname(os.path.abspath(__file__)), "..", "known_findings.json"))
    pids = argv or props.all_ids()
    bad = 0
    for pid in pids:
        spec = props.get(pid)
        base = run_rules(spec, Context(REPO), "quick")
        rep = run_rules(spec, Context(REPO, overlay=overlay), "quick")
        # exactly what check.py would report: a violation that no committed known finding matches
        base_v = {o.ident() for o in base.violations if match_known(known, pid, o) is None}
        new_v = [o for o in rep.violations if match_known(known, pid, o) is None and o.ident() not in base_v]
        lost = len(base.obligations) - len(rep.obligations)
        status = "ok"
        if new_v or rep.analysis_errors:
            status = "FALSE-ALARM"
            bad += 1
        print("%s %s obligations %d -> %d%s" % (pid, status, len(base.obligations), len(rep.obligations),
                                               "  (instances lost: %d)" % lost if lost > 0 else ""))
        for o in new_v[:12]:
            print("    %s [%s] %s :: %s" % (o.rule, o.site, o.key, o.msg[:160]))
        for e in rep.analysis_errors:
            print("    ANALYSIS-ERROR %s" % e)
    return 1 if bad else 0


if __name__ == "__main__":
    sys.exit(main(sys.argv[1:]))
