#!/bin/bash
# Runs every check against a scratch worktree of the ORIGINAL snapshot (before the fix: commits) and prints the
# violated rule instances: all defects recorded in DESIGN.md section 6 must still be reported there.
set -e
W=$(mktemp -d /tmp/verif_orig_XXXX)
git -C /repo worktree add --detach -f "$W" f5ffd89 >/dev/null 2>&1
cd /verif
{
for p in C01 C02 C03 C04 C05 C06 C07 C08 C09 C10 C11 C12 C13 C15 C16 C17 C18 C19 C20 C21 C22 C23 C24 C25 C26 C27; do
  /venv/bin/python check.py --property $p --tier quick --repo "$W" --no-evidence 2>&1 | grep -E "^(FAIL|ANALYSIS|KNOWN-FINDING)" | sed -E 's/^KNOWN-FINDING: property=[A-Z0-9]+ .*\[(R[0-9.]+) (.*) :: (.*)\]$/FAIL \1 [\2] \3 (known finding)/' | sed "s/^/$p /" | cut -c1-190
done
} | sort
git -C /repo worktree remove --force "$W"
rm -rf "$W"
