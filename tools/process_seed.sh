#!/bin/bash
# usage: process_seed.sh <round> <PROP> <nameA> <nameB>   (names without the property prefix)
# Confirms each delivered change (suite, demo with / without) and evaluates the property's quick check in the agent's worktree.
R=$1; P=$2; W=/tmp/seed${R}_$P
for X in A B; do
  N=$3; [ $X = B ] && N=$4
  [ -z "$N" ] && continue
  NAME=$P-$N
  if [ -e /verif/seeded/$NAME ]; then echo "$NAME: a seed of that name exists already, choose another name"; continue; fi
  if [ ! -f $W/seed$X.diff ] || [ ! -f $W/demo$X.py ]; then echo "$NAME: deliverables missing"; continue; fi
  r=$(/verif/tools/confirm_seed2.sh $W $P $NAME $W/seed$X.diff $W/demo$X.py 2>&1 | tail -1)
  git -C $W apply /verif/seeded/$NAME/patch.diff
  out=$(cd /verif && /venv/bin/python check.py --property $P --tier quick --no-evidence --repo $W 2>&1); rc="exit=$?"
  git -C $W apply -R /verif/seeded/$NAME/patch.diff
  echo "$NAME | $r | check $rc $(echo "$out" | grep -v KNOWN | grep -m1 '^FAIL' | cut -c1-120)"
done
