#!/venv/bin/python
"""write_meta.py <name> <needs> <caught_by>  — writes seeded/<name>/meta.json from the .confirm file left by confirm_seed.sh"""
import json, os, sys
name, needs, det = sys.argv[1:4]
d = "/verif/seeded/" + name
prop = name.split("-")[0]
conf = open(d + "/.confirm").read().strip().split("|")
meta = {"property": prop,
  "origin": "independent sub-agent given only the property record, a scratch worktree of /repo and a list of ideas already tried (nothing from /verif)",
  "needs_to_manifest": needs,
  "confirmed_by_me": {"baseline_suite_with_change": conf[0], "demo_exit_with_change": int(conf[1]), "demo_exit_without_change": int(conf[2]),
     "how": "tools/confirm_seed.sh / confirm_seed2.sh <worktree> (suite via tools/baseline.py with PYTHONPATH=<worktree>/src; demo with the patch applied and after `git apply -R`)"},
  "checks": {"command": "tools/eval_seed.sh %s seeded/%s/patch.diff" % (prop, name), "result": "exit 1, VIOLATION", "caught_by": det}}
json.dump(meta, open(d + "/meta.json", "w"), indent=1)
os.remove(d + "/.confirm")
