#!/venv/bin/python
"""make_seed_round.py <round-number> [Cxx ...] — creates one scratch worktree /tmp/seed<r>_<Cxx> of /repo HEAD and one prompt file
/tmp/seedprompt<r>_<Cxx>.txt per claimed property.  The prompt contains the property record and one line per idea already kept
under seeded/ (name + what it needs) — nothing else from /verif.  Launch one sub-agent per prompt:
  "Read the file /tmp/seedprompt<r>_<Cxx>.txt and follow its instructions exactly (your scratch worktree is /tmp/seed<r>_<Cxx>).
   Do not read anything under /verif. Never use `git stash`. Keep your final answer short."
then process its deliverables with tools/process_seed.sh <r> <Cxx> <nameA> <nameB>."""
import json, subprocess, glob, os, sys
r = sys.argv[1]
only = sys.argv[2:]
props = {}
for l in open('/verif/properties.jsonl'):
    d = json.loads(l); props[d['id']] = d
tried = {}
for m in sorted(glob.glob('/verif/seeded/*/meta.json')):
    d = json.load(open(m)); name = os.path.basename(os.path.dirname(m))
    tried.setdefault(d['property'], []).append(name.split('-', 1)[1].replace('-', ' ') + " (needs: " + d['needs_to_manifest'][:100] + ")")
ids = [p for p in props if p not in ('C14',) and (not only or p in only)]
for pid in ids:
    d = props[pid]
    W = "/tmp/seed%s_%s" % (r, pid)
    subprocess.run(['git', '-C', '/repo', 'worktree', 'add', '--detach', '-f', W, 'HEAD'], capture_output=True)
    txt = f"""You are helping to evaluate a verification tool for an open-source Python project (pymoca, a Modelica-to-CAS translator).
Your job: design TWO DIFFERENT realistic, subtle defects (call them A and B), each of which BREAKS the property below while the
project still imports and its existing test-suite still passes.  You work ONLY inside your own scratch git worktree: {W}
(run python as `PYTHONPATH={W}/src /venv/bin/python ...`; casadi, sympy, antlr4 runtime, lxml, numpy are installed; no network).
Do not read or write anything under /verif or /repo.  NEVER use `git stash` (the stash is shared with other worktrees).
The parse cache in ~/.cache/pymoca is shared between checkouts: pass bypass_cache=True to parser.parse or set XDG_CACHE_HOME
to a private directory in your scripts.

THE PROPERTY ({pid}): {d['title']}
Statement: {d['statement']}
Quantifier: {d['quantifier']['text']}
Code it is anchored in: {json.dumps(d['anchors']['mechanism'])}
Observe at: {d['anchors']['observe_at']}

REQUIREMENTS FOR EACH OF THE TWO CHANGES
1. It edits the project's source under src/ or tools/ (not tests), is small (typically 1-25 lines) and looks like something a
   developer could plausibly write: a refactoring that is almost right, an optimisation with a forgotten case, a "simplification",
   a copy/paste slip, an off-by-one, a condition slightly too weak/strong, a wrong variable of the right type, state kept where it
   should not be, a statement moved to a slightly wrong place.  Do NOT delete a whole feature or make the code crash on every input.
2. It needs something SPECIFIC to manifest (an input shape, an option combination, a history of calls, an ordering): common inputs
   behave as before.  Say precisely what is needed.
3. The project's test-suite still passes with it: run
   `cd {W} && PYTHONPATH={W}/src /venv/bin/python -m pytest -q -p no:cacheprovider --timeout=900 --continue-on-collection-errors -q`
   (20 failures and several collection errors are pre-existing; the set of PASSING tests must not shrink; the authoritative list
   of tests that must pass is "stable_pass" in /root/.vp/BASELINE.json).
4. A and B must differ in MECHANISM and SITE (different function or clearly different part of one, different clause of the property).
5. Deliverables, all in {W}: for A: seedA.diff (output of `git diff -- src tools` with only A applied) and demoA.py; for B: seedB.diff
   and demoB.py.  Each demo is a self-contained script that exits 1 (printing what is wrong) WITH its change applied and exits 0
   WITHOUT it, and imports pymoca via PYTHONPATH (no hard-coded sys.path).  Verify all of that yourself
   (`git apply seedA.diff; ...; git apply -R seedA.diff`).  At the end leave the worktree CLEAN (`git checkout -- src tools`; no
   change applied) — only the four files plus NOTES.md (what each change is, which clause it breaks, what it needs to manifest,
   commands and results) remain.  If the Write tool refuses a .md file, create it with a shell here-document.
6. In your final answer give each change a short kebab-case name (3-6 words, e.g. `guard-tests-wrong-operand`).

IDEAS ALREADY USED IN EARLIER ROUNDS FOR THIS PROPERTY — do something DIFFERENT (another site, another clause, another mechanism):
{chr(10).join('- ' + t for t in tried.get(pid, [])) or '- (none)'}

Be inventive: which clause of the statement is each branch of the anchored code responsible for?  Break a clause or a site nobody has
touched yet.  Keep your final answer short (under 250 words): for A and for B, the name, what you changed, what it needs to manifest,
the three results (suite, demo with, demo without).
"""
    open('/tmp/seedprompt%s_%s.txt' % (r, pid), 'w').write(txt)
print(len(ids), "prompts written")
