import json,subprocess,sys
prop, what = sys.argv[1], sys.argv[2]
p='/verif/known_findings.json'
d=json.load(open(p))
c=subprocess.check_output(['git','-C','/repo','log','-1','--format=%h']).decode().strip()
d['findings'].append({"fixed":True,"property":prop,"commit":c,"what":what,"text":"fixed: property=%s %s %s"%(prop,c,what)})
json.dump(d,open(p,'w'),indent=1,ensure_ascii=False)
print("recorded", c)
