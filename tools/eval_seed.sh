#!/bin/bash
# usage: eval_seed.sh <PROP> <patch.diff>   — applies the patch to /repo, runs the property's quick check (and all others
# when ALL=1), undoes it. Prints the verdict lines.
set -u
P=$1; PATCH=$2
cd /repo || exit 3
if ! git -C /repo diff --quiet; then echo "repo dirty, refusing"; exit 3; fi
git -C /repo apply "$PATCH" || { echo "patch does not apply"; exit 3; }
cd /verif
if [ "${ALL:-0}" = "1" ]; then PROPS="C01 C02 C03 C04 C05 C06 C07 C08 C09 C10 C11 C12 C13 C15 C16 C17 C18 C19 C20 C21 C22 C23 C24 C25 C26 C27"; else PROPS=$P; fi
for q in $PROPS; do
  out=$(/venv/bin/python check.py --property $q --tier quick --no-evidence 2>&1); rc=$?
  echo "== $q exit=$rc"; echo "$out" | grep -E "^(FAIL|ANALYSIS|     )" | cut -c1-260 | head -12
done
git -C /repo checkout -- . 
git -C /repo status --short | head -3
