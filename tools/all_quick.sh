#!/bin/bash
# Runs every registered quick check on /repo's current tree the way `vp check` does (VERIF_SEED=1 VERIF_TIER=quick) and
# prints only what is not a plain pass.  Use after EVERY change to /repo or to a rule.
cd /verif
export VERIF_SEED=1 VERIF_TIER=quick
bad=0
for p in $(/venv/bin/python -c "from sa import props; print(' '.join(props.all_ids()))"); do
  out=$(/venv/bin/python check.py --property $p --tier quick --no-evidence 2>&1); rc=$?
  if [ $rc -ne 0 ]; then bad=1; echo "== $p exit=$rc"; echo "$out" | grep -E "^(FAIL|VIOLATION|ANALYSIS|Traceback)" | head -8; fi
done
[ $bad -eq 0 ] && echo "all quick checks pass"
exit $bad
