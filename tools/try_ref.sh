#!/bin/bash
# usage: try_ref.sh <refactoring-name> PROP [PROP...] : apply the kept refactoring to a scratch copy of /repo and run the named quick checks
n=$1; shift
d=$(mktemp -d /tmp/tr_XXXX); rsync -a --exclude .git --exclude '*.jar' /repo/ $d/; (cd $d && git apply /verif/refactorings/$n/patch.diff) || echo "apply failed"
cd /verif
for p in "$@"; do /venv/bin/python check.py --property $p --tier quick --no-evidence --repo $d | grep -E "^(FAIL|OK|ANALYSIS)" | cut -c1-300 | head -8; done
rm -rf $d
