#!/bin/bash
# usage: confirm_seed.sh <worktree> <PROP> <name>
# Confirms a seeded change delivered by a sub-agent in its scratch worktree:
#  1. baseline suite still passes with the change, 2. demo fails with it, 3. demo passes without it,
# then stores patch.diff + demo + meta.json under /verif/seeded/<name>/ and evaluates the checks on it.
W=$1; P=$2; NAME=$3
cd $W || exit 3
DEMO=$(ls demo_seed.py demo_seed_test.py 2>/dev/null | head -1)
[ -z "$DEMO" ] && { echo "no demo"; exit 3; }
run_demo() { if [[ $DEMO == *_test.py ]]; then PYTHONPATH=$W/src timeout 600 /venv/bin/python -m pytest -q -p no:cacheprovider $DEMO >/tmp/demo.out 2>&1; else PYTHONPATH=$W/src timeout 600 /venv/bin/python $DEMO >/tmp/demo.out 2>&1; fi; echo $?; }
git diff -- src tools > /tmp/patch_$NAME.diff
[ -s /tmp/patch_$NAME.diff ] || { echo "empty patch"; exit 3; }
SUITE=$(/venv/bin/python /verif/tools/baseline.py $W | head -1)
WITH=$(run_demo)
# NB: never use `git stash` here — the stash is shared by all worktrees of /repo
git apply -R /tmp/patch_$NAME.diff || { echo "cannot reverse patch"; exit 3; }
WITHOUT=$(run_demo)
git apply /tmp/patch_$NAME.diff
echo "suite: $SUITE | demo with change exit=$WITH | without exit=$WITHOUT"
mkdir -p /verif/seeded/$NAME
cp /tmp/patch_$NAME.diff /verif/seeded/$NAME/patch.diff
cp $DEMO /verif/seeded/$NAME/
[ -f NOTES.md ] && cp NOTES.md /verif/seeded/$NAME/NOTES.md
echo "$SUITE|$WITH|$WITHOUT" > /verif/seeded/$NAME/.confirm
rm -f /tmp/patch_$NAME.diff /tmp/demo.out
