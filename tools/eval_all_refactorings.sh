#!/bin/bash
# Applies every behaviour-preserving refactoring kept under refactorings/ to /repo in turn (git apply; ALL quick checks; git checkout -- .)
# and requires every check to stay silent (exit 0).  usage: eval_all_refactorings.sh [name-prefix]
cd /verif
fail=0
if ! git -C /repo diff --quiet; then echo "repo dirty"; exit 3; fi
IDS=$(/venv/bin/python -c "import sys; sys.path.insert(0,'/verif'); from sa.props import _IDS; print(' '.join(_IDS))")
for d in refactorings/${1:-}*/; do
  name=$(basename $d)
  git -C /repo apply /verif/$d/patch.diff || { echo "$name: patch does not apply"; fail=1; continue; }
  bad=""
  for q in $IDS; do
    out=$(/venv/bin/python check.py --property $q --tier quick --no-evidence 2>&1); rc=$?
    if [ $rc -ne 0 ]; then bad="$bad $q"; echo "$out" | grep -E "^(FAIL|ANALYSIS)" | cut -c1-200 | sed "s/^/    [$name $q] /"; fi
  done
  git -C /repo checkout -- .
  if [ -z "$bad" ]; then echo "silent  $name"; else echo "ALARM   $name:$bad"; fail=1; fi
done
exit $fail
