#!/venv/bin/python
"""Entry point of the static checks.

  check.py --property C01 [--tier quick|thorough] [--repo /repo] [--replay FILE]

exit 0  every obligation of the property discharged (known findings are printed
        as KNOWN-FINDING lines and do not affect the status)
exit 1  an unlisted violation: ``VIOLATION property=<id> replay=<path>``
exit 2  ``ANALYSIS-ERROR``: the checker could not analyse (vanished anchor,
        unparsable file, vacuous rule) — never a silent pass
"""
from __future__ import annotations

import argparse
import json
import os
import sys
import traceback

HERE = os.path.dirname(os.path.abspath(__file__))
sys.path.insert(0, HERE)

from sa.engine import (  # noqa: E402
    AnalysisError,
    Context,
    Timer,
    load_known,
    match_known,
    run_rules,
)
from sa import props  # noqa: E402
from sa.liveness import run_liveness  # noqa: E402

EVIDENCE_DIR = os.path.join(HERE, "evidence")
KNOWN_PATH = os.path.join(HERE, "known_findings.json")


def write_evidence(spec, tier, seed, rep, ctx, wall, known_hits, new_viol, liveness, status):
    os.makedirs(EVIDENCE_DIR, exist_ok=True)
    obs = rep.obligations
    distinct = len({o.ident() for o in obs})
    per_rule = {}
    for o in obs:
        d = per_rule.setdefault(o.rule, {"instances": 0, "discharged": 0})
        d["instances"] += 1
        d["discharged"] += 1 if o.ok else 0
    # samples: every violated instance, plus up to 3 discharged ones per rule
    samples = [o.to_json() for o in obs if not o.ok]
    seen = {}
    for o in obs:
        if o.ok and seen.get(o.rule, 0) < 3:
            seen[o.rule] = seen.get(o.rule, 0) + 1
            samples.append(o.to_json())
    rules_txt = "; ".join("%s: %s" % (r.rid, r.text) for r in spec.rules if r.tier == "quick" or tier == "thorough")
    ev = {
        "property_id": spec.pid,
        "tier": tier,
        "seed": seed,
        "level": "other",
        "coverage": {
            "explanation": (
                "Static analysis of /repo's current source (Python ast, CFG/dominators, "
                "grammar text, literal tables); pymoca is not executed. Decided clause: %s "
                "NOT decided: %s Rules: %s" % (spec.decided, spec.not_decided, rules_txt)
            ),
            "obligations": len(obs),
            "discharged": sum(1 for o in obs if o.ok),
            "evaluations": len(obs),
            "distinct_nontrivial": distinct,
            "rule": (
                "one case = one (rule, site, construct) instance found in the analysed source; "
                "non-trivial = its anchor was found and the rule body inspected code; "
                "distinct = distinct (rule, site, key) triples"
            ),
            "samples": samples,
            "per_rule": per_rule,
            "exhaustive": True,
            "analysed": {
                "files": ctx.files_read,
                "functions": sorted(ctx.functions_analysed),
                "n_functions": len(ctx.functions_analysed),
            },
            "notes": rep.notes,
            "known_findings_matched": [o.to_json() for o in known_hits],
            "unlisted_violations": [o.to_json() for o in new_viol],
        },
        "assumptions": spec.assumptions
        + [
            "CPython's ast module parses what the interpreter would run",
            "only the structural clause named under 'Decided' is claimed, not the value-level behaviour",
        ],
        "wall_s": wall,
        "violations": len(new_viol),
        "status": status,
    }
    if rep.extra:
        ev["coverage"]["extra"] = rep.extra
    if liveness is not None:
        ev["coverage"]["liveness"] = liveness
    path = os.path.join(EVIDENCE_DIR, spec.pid + ".json")
    tmp = path + ".tmp"
    with open(tmp, "w") as f:
        json.dump(ev, f, indent=1, sort_keys=True, default=str)
    os.replace(tmp, path)
    return path


def write_replay(pid, n, ob):
    d = os.path.join(EVIDENCE_DIR, "replay")
    os.makedirs(d, exist_ok=True)
    path = os.path.join(d, "%s-%d.json" % (pid, n))
    with open(path, "w") as f:
        json.dump({"property": pid, **ob.to_json()}, f, indent=1)
    return path


def main(argv=None) -> int:
    ap = argparse.ArgumentParser()
    ap.add_argument("--property", required=True)
    ap.add_argument("--tier", default=os.environ.get("VERIF_TIER", "quick"), choices=["quick", "thorough"])
    ap.add_argument("--repo", default=os.environ.get("VERIF_REPO", "/repo"))
    ap.add_argument("--replay", default=None)
    ap.add_argument("--no-evidence", action="store_true")
    ap.add_argument("-j", type=int, default=16)
    args = ap.parse_args(argv)
    pid = args.property
    try:
        seed = int(os.environ.get("VERIF_SEED", "0"))
    except ValueError:
        seed = 0

    timer = Timer()
    try:
        spec = props.get(pid)
        if spec is None:
            print("ANALYSIS-ERROR property=%s no check is registered for this property" % pid)
            return 2
        ctx = Context(args.repo)
        rep = run_rules(spec, ctx, args.tier)
        known = load_known(KNOWN_PATH)

        if args.replay:
            with open(args.replay) as f:
                want = json.load(f)
            ident = (want["rule"], want["site"], want["key"])
            hits = [o for o in rep.obligations if o.ident() == ident]
            if not hits:
                print("REPLAY property=%s instance no longer exists: %s" % (pid, ident,))
                return 0
            bad = [o for o in hits if not o.ok]
            for o in hits:
                print("REPLAY %s %s [%s] %s :: %s" % ("VIOLATED" if not o.ok else "discharged", o.rule, o.site, o.key, o.msg))
            if bad:
                print("VIOLATION property=%s replay=%s" % (pid, args.replay))
                return 1
            return 0

        known_hits, new_viol = [], []
        for o in rep.violations:
            k = match_known(known, pid, o)
            if k is not None:
                known_hits.append(o)
                print("KNOWN-FINDING: property=%s %s [%s %s :: %s]" % (pid, k.get("what", o.msg), o.rule, o.site, o.key))
            else:
                new_viol.append(o)

        liveness = None
        if args.tier == "thorough":
            liveness = run_liveness(spec, args.repo, rep, jobs=args.j)
            for m in liveness.get("missed", []):
                print("LIVENESS-WARNING property=%s seeded variant did not fire: %s" % (pid, m))

        status = "violation" if new_viol else ("analysis-error" if rep.analysis_errors else "pass")
        wall = timer.s()
        if not args.no_evidence:
            write_evidence(spec, args.tier, seed, rep, ctx, wall, known_hits, new_viol, liveness, status)

        if new_viol:
            for e in rep.analysis_errors:
                print("ANALYSIS-ERROR property=%s %s" % (pid, e))
            for i, o in enumerate(new_viol, 1):
                print("FAIL %s [%s] %s\n     %s" % (o.rule, o.site, o.key, o.msg))
                if o.detail.get("path"):
                    print("     path: %s" % o.detail["path"])
            seen = set()
            n = 0
            for o in new_viol:
                if o.ident() in seen:
                    continue
                seen.add(o.ident())
                n += 1
                rp = write_replay(pid, n, o)
                print("VIOLATION property=%s replay=%s" % (pid, rp))
            return 1
        if rep.analysis_errors:
            for e in rep.analysis_errors:
                print("ANALYSIS-ERROR property=%s %s" % (pid, e))
            return 2
        print(
            "OK property=%s tier=%s obligations=%d discharged=%d known_findings=%d rules=%d wall=%.2fs"
            % (pid, args.tier, len(rep.obligations), sum(1 for o in rep.obligations if o.ok), len(known_hits), len(rep.rule_counts), wall)
        )
        return 0
    except AnalysisError as e:
        print("ANALYSIS-ERROR property=%s %s" % (pid, e))
        return 2
    except Exception:  # noqa: BLE001  any crash of the checker is an analysis error, not a violation
        traceback.print_exc()
        print("ANALYSIS-ERROR property=%s checker crashed (traceback above)" % pid)
        return 2


if __name__ == "__main__":
    sys.exit(main())
