#!/venv/bin/python
"""Writes MANIFEST.json from the registry (run by hand after adding a property)."""
import json, os, sys
HERE = os.path.dirname(os.path.abspath(__file__))
sys.path.insert(0, HERE)
from sa import props

NA = {
    "C14": "simplification preserves solutions: quantifies over numeric solutions of CasADi expression graphs under 2^11 option combinations; the only structural necessary condition (eliminated symbols substituted everywhere) is claimed under C15, not twice",
}
TECH = {}
checks = []
built = []
for pid in props.all_ids():
    spec = props.get(pid)
    if spec is None:
        NA.setdefault(pid, "static check not built yet in this round (planned, see DESIGN.md section 4)")
        continue
    built.append(pid)
    checks.append({
        "property_id": pid,
        "quick_cmd": "/venv/bin/python check.py --property %s --tier quick" % pid,
        "thorough_cmd": "/venv/bin/python check.py --property %s --tier thorough" % pid,
        "evidence_file": "evidence/%s.json" % pid,
        "replay_cmd_template": "/venv/bin/python check.py --property %s --replay {path}" % pid,
        "engine": "sa",
        "level_claimed": {
            "category": "other",
            "text": "Static proof of a structural clause, for every execution of the analysed code (all CFG paths / table entries / call sites): " + spec.decided + " It does NOT decide: " + spec.not_decided,
            "design_ref": "DESIGN.md section 4, " + pid,
        },
        "level_note": "Trusted: CPython ast; " + "; ".join(spec.assumptions) if spec.assumptions else "Trusted: CPython ast parses what the interpreter runs.",
        "technique": getattr(spec, "technique", "static analysis: custom ast/CFG/dataflow rules over /repo's source"),
    })
m = {
    "version": 1,
    "setup_cmd": "true",
    "hooks": {
        "guard": "PYMOCA_VERIF",
        "enable": "none needed: the checks read /repo's source and never run it; no hook commits exist",
        "baseline_off_cmd": "cd /repo && /venv/bin/python -m pytest -ra -q -p no:cacheprovider --timeout=900 --continue-on-collection-errors",
        "source_commits": [],
        "add_only": True,
    },
    "engines": [{"name": "sa", "path": "sa/", "serves_properties": built,
                 "kind_free_text": "repository-specific static analysis: Python ast rules, hand-built statement CFG with dominators and reaching definitions, SQL/grammar/format-string literal readers, ownership (tree-taint) analysis"}],
    "checks": checks,
    "not_applicable": [{"property_id": k, "reason": v} for k, v in sorted(NA.items())],
    "notes": "exit 0 pass / 1 VIOLATION / 2 ANALYSIS-ERROR (vanished anchor, never a silent pass). known_findings.json lists recorded genuine defects.",
}
with open(os.path.join(HERE, "MANIFEST.json"), "w") as f:
    json.dump(m, f, indent=1)
print("wrote MANIFEST.json with", len(checks), "checks;", len(m["not_applicable"]), "not applicable")
